(* C12: the files one successful compile_templates plans to write are pairwise distinct, on every
   well-formed input tree (entry names of a directory pairwise distinct and free of '/', as in any
   file system).  This discharges the first side condition of second_run_writes_nothing for the
   documented shape of a build script. *)
From Coq Require Import Lia.
From Ructe Require Import Nom NomFacts Utf8 Emit Compile Md5 Static Tables Build MapProofs BuildProofs.
Local Open Scope string_scope.
Local Open Scope list_scope.

Definition nos (n : bytes) : Prop := ~ In 47%N n.
Definition pathsof (w : world) : list bytes := map fst (plan w).

Inductive wf_es : list (bytes * node) -> Prop :=
| wf_intro es : NoDup (map fst es) -> (forall n x, In (n, x) es -> nos n) ->
                (forall n sub, In (n, Dir sub) es -> wf_es sub) -> wf_es es.
Definition wf_node (t : node) : Prop := match t with File _ => True | Dir es => wf_es es end.

(* ---- lists ---- *)
Lemma split_unique a : forall a' r r', nos a -> nos a' -> a ++ 47%N :: r = a' ++ 47%N :: r' -> a = a'.
Proof.
  induction a as [|x a IH]; intros a' r r' Na Na' E; destruct a' as [|y a']; cbn in E.
  - reflexivity.
  - inversion E; subst. exfalso. apply Na'. now left.
  - inversion E; subst. exfalso. apply Na. now left.
  - inversion E; subst. f_equal. apply (IH a' r r'); [intros I; apply Na; now right|intros I; apply Na'; now right|assumption].
Qed.
Lemma nos_app a c : nos a -> nos c -> nos (a ++ c).
Proof. unfold nos. intros Ha Hc I. apply in_app_iff in I. tauto. Qed.
Lemma in_firstn {A} (x : A) k : forall l, In x (firstn k l) -> In x l.
Proof. induction k as [|k IH]; intros [|y l]; cbn; try tauto. intros [->|I]; [now left|right; now apply IH]. Qed.
Lemma NoDup_app_intro {A} (l1 l2 : list A) : NoDup l1 -> NoDup l2 -> (forall x, In x l1 -> In x l2 -> False) -> NoDup (l1 ++ l2).
Proof.
  induction l1 as [|x l1 IH]; intros N1 N2 D; [exact N2|]. inversion N1; subst. cbn. constructor.
  - intros I. apply in_app_iff in I. destruct I as [I|I]; [contradiction|]. apply (D x); [now left|exact I].
  - apply IH; [assumption|assumption|]. intros y I1 I2. apply (D y); [now right|exact I2].
Qed.
Lemma ends_with_split s suffix : ends_with s suffix = true -> exists x, s = x ++ suffix.
Proof.
  unfold ends_with. destruct (strip_prefix (rev suffix) (rev s)) as [r|] eqn:E; [|discriminate]. intros _.
  apply strip_prefix_sfx in E. exists (rev r). apply (f_equal (@rev N)) in E. rewrite rev_involutive, rev_app_distr, rev_involutive in E. exact E.
Qed.

(* ---- the names of generated files ---- *)
Definition tail_of (s : bytes) : bytes := b "_" ++ skipn 4 s.
Definition tails_ok : bool :=
  forallb (fun s => forallb (fun s' => beqb s s' || negb (ends_with (tail_of s) (tail_of s'))) template_suffixes
                    && negb (existsb (N.eqb 47) (tail_of s))) template_suffixes.
Lemma tails_ok_true : tails_ok = true. Proof. vm_compute. reflexivity. Qed.

Lemma tail_nos s : In s template_suffixes -> nos (tail_of s).
Proof.
  intros I. pose proof tails_ok_true as X. unfold tails_ok in X. rewrite forallb_forall in X. specialize (X s I).
  apply andb_true_iff in X. destruct X as [_ X]. apply negb_true_iff in X. intros J.
  assert (existsb (N.eqb 47) (tail_of s) = true); [|congruence]. apply existsb_exists. exists 47%N. split; [exact J|reflexivity].
Qed.
Lemma tails_differ s s' : In s template_suffixes -> In s' template_suffixes -> s <> s' -> ends_with (tail_of s) (tail_of s') = false.
Proof.
  intros I I' D. pose proof tails_ok_true as X. unfold tails_ok in X. rewrite forallb_forall in X. specialize (X s I).
  apply andb_true_iff in X. destruct X as [X _]. rewrite forallb_forall in X. specialize (X s' I').
  apply orb_true_iff in X. destruct X as [X|X]; [apply beqb_true in X; congruence|]. now apply negb_true_iff in X.
Qed.

(* the generated name determines the template file name *)
Lemma gen_name_injective stem1 s1 stem2 s2 : In s1 template_suffixes -> In s2 template_suffixes ->
  stem1 ++ tail_of s1 = stem2 ++ tail_of s2 -> stem1 ++ s1 = stem2 ++ s2.
Proof.
  intros I1 I2 E. destruct (beqb s1 s2) eqn:B.
  - apply beqb_true in B. subst s2. apply app_inv_tail in E. now subst.
  - apply beqb_false in B. exfalso.
    assert (X : ends_with (stem1 ++ tail_of s1) (tail_of s2) = true) by (rewrite E; apply ends_with_app).
    destruct (ends_with_comparable _ _ _ X) as [Y|Y].
    + rewrite (tails_differ s1 s2 I1 I2 B) in Y. discriminate.
    + rewrite (tails_differ s2 s1 I2 I1 (fun e => B (eq_sym e))) in Y. discriminate.
Qed.

Definition tname (n s : bytes) : bytes := b "template_" ++ suffix_name n s ++ b ".rs".
Lemma suffix_name_tail stem s : In s template_suffixes -> suffix_name (stem ++ s) s = stem ++ tail_of s.
Proof. intros I. apply suffix_name_spec. now apply suffix_len. Qed.
Lemma tname_nos n s : nos n -> In s template_suffixes -> ends_with n s = true -> nos (tname n s).
Proof.
  intros Nn I E. destruct (ends_with_split _ _ E) as [stem ->]. unfold tname. rewrite (suffix_name_tail stem s I).
  assert (nos stem) by (intros J; apply Nn; apply in_app_iff; now left).
  assert (L1 : nos (b "template_")) by (intros J; cbn in J; repeat (destruct J as [J|J]; [discriminate|]); exact J).
  assert (L2 : nos (b ".rs")) by (intros J; cbn in J; repeat (destruct J as [J|J]; [discriminate|]); exact J).
  apply nos_app; [exact L1|]. apply nos_app; [|exact L2]. apply nos_app; [assumption|now apply tail_nos].
Qed.
Lemma tname_injective n1 s1 n2 s2 : In s1 template_suffixes -> In s2 template_suffixes ->
  ends_with n1 s1 = true -> ends_with n2 s2 = true -> tname n1 s1 = tname n2 s2 -> n1 = n2.
Proof.
  intros I1 I2 E1 E2 T. destruct (ends_with_split _ _ E1) as [st1 ->]. destruct (ends_with_split _ _ E2) as [st2 ->].
  unfold tname in T. rewrite (suffix_name_tail st1 s1 I1), (suffix_name_tail st2 s2 I2) in T.
  apply app_inv_head in T. apply app_inv_tail in T. now apply gen_name_injective.
Qed.

Lemma pjoin_ne a c : a <> [] -> pjoin a c = a ++ [47%N] ++ c.
Proof. intros H. unfold pjoin. destruct (beqb a []) eqn:E; [apply beqb_true in E; contradiction|reflexivity]. Qed.
Lemma wf_tail e rest : wf_es (e :: rest) -> wf_es rest.
Proof.
  intros W. inversion W as [es ND NS SUB]; subst. constructor.
  - cbn in ND. now inversion ND.
  - intros n x I. apply (NS n x). now right.
  - intros n sub I. apply (SUB n sub). now right.
Qed.

Section Paths.
  Variable uni_esc : N -> bool.
  Variable compile : bytes -> bytes -> coutcome.
  Notation HE := (handle_entries uni_esc compile).
  Notation delta := (entry_delta uni_esc compile).

  (* which entry of a directory a planned path belongs to *)
  Definition cls (outdir n : bytes) (x : node) (p : bytes) : Prop :=
    match x with
    | File _ => exists s, In s template_suffixes /\ ends_with n s = true /\ p = outdir ++ [47%N] ++ tname n s
    | Dir _ => exists rest, p = outdir ++ [47%N] ++ n ++ [47%N] ++ rest
    end.

  Lemma cls_same_name outdir n x n' x' p : nos n -> nos n' -> cls outdir n x p -> cls outdir n' x' p -> n = n'.
  Proof.
    intros Nn Nn'. destruct x as [c|sub], x' as [c'|sub']; cbn [cls].
    - intros [s [I [E ->]]] [s' [I' [E' P]]]. apply app_inv_head in P. apply app_inv_head in P. now apply (tname_injective n s n' s').
    - intros [s [I [E ->]]] [rest P]. apply app_inv_head in P. apply app_inv_head in P. exfalso.
      apply (tname_nos n s Nn I E). rewrite P. apply in_app_iff. right. now left.
    - intros [rest ->] [s' [I' [E' P]]]. apply app_inv_head in P. apply app_inv_head in P. exfalso.
      apply (tname_nos n' s' Nn' I' E'). rewrite <- P. apply in_app_iff. right. now left.
    - intros [rest ->] [rest' P]. apply app_inv_head in P. apply app_inv_head in P. cbn [app] in P. now apply (split_unique n n' rest rest').
  Qed.

  Definition paths_ok (outdir : bytes) (es : list (bytes * node)) (d : world) : Prop :=
    NoDup (pathsof d) /\ forall p, In p (pathsof d) -> exists n x, In (n, x) es /\ cls outdir n x p.
  Definition good_rec (rec : world -> bytes -> bytes -> bytes -> list (bytes * node) -> bres (world * bytes)) : Prop :=
    framed rec /\ forall sub indir outdir d g, outdir <> [] -> wf_es sub ->
      rec w_empty [] indir outdir sub = BOk _ (d, g) -> paths_ok outdir sub d.

  Lemma file_delta rec indir outdir n c d g : outdir <> [] ->
    delta rec indir outdir (n, File c) = BOk _ (d, g) ->
    NoDup (pathsof d) /\ forall p, In p (pathsof d) -> cls outdir n (File c) p.
  Proof.
    intros O H. destruct (utf8_valid n) eqn:V.
    - destruct (existsb (fun s => ends_with n s) template_suffixes) eqn:X.
      + apply existsb_exists in X. destruct X as [s [I E]]. destruct (ends_with_split _ _ E) as [stem ->].
        pose proof (template_entry_delta uni_esc compile rec indir outdir stem s c I V) as Q. cbv zeta in Q. pose proof (eq_trans (eq_sym Q) H) as H2. clear H Q. rename H2 into H. unfold handle_template in H.
        destruct (compile (stem ++ b "_" ++ skipn 4 s) c) as [code|diag| |]; try discriminate; inversion H; subst d g; clear H.
        * unfold pathsof. cbn [plan write_if_changed announce_read note_read say w_empty app map fst]. split; [repeat constructor; intros []|].
          intros p [<-|[]]. cbn [cls]. exists s. split; [exact I|]. split; [exact E|]. rewrite (pjoin_ne _ _ O). unfold tname.
          now rewrite (suffix_name_tail stem s I).
        * unfold pathsof. cbn. split; [constructor|intros p []].
      + unfold entry_delta in H. rewrite entries_loop_other_file in H.
        * cbn in H. inversion H; subst. unfold pathsof. cbn. split; [constructor|intros p []].
        * apply forallb_forall. intros s I. apply negb_true_iff. destruct (ends_with n s) eqn:E; [|reflexivity].
          assert (existsb (fun s => ends_with n s) template_suffixes = true); [|congruence]. apply existsb_exists. now exists s.
    - unfold entry_delta in H. cbn [entries_loop] in H. rewrite V in H. cbn in H. inversion H; subst. unfold pathsof. cbn. split; [constructor|intros p []].
  Qed.

  Lemma modrs_not_tname n s : b "mod.rs" <> tname n s.
  Proof. unfold tname. cbn. discriminate. Qed.
  Lemma modrs_nos : nos (b "mod.rs").
  Proof. intros J; cbn in J; repeat (destruct J as [J|J]; [discriminate|]); exact J. Qed.

  Lemma dir_delta rec (G : good_rec rec) indir outdir n sub d g : outdir <> [] -> wf_es sub ->
    delta rec indir outdir (n, Dir sub) = BOk _ (d, g) ->
    NoDup (pathsof d) /\ forall p, In p (pathsof d) -> cls outdir n (Dir sub) p.
  Proof.
    intros O W H. destruct G as [Fr G]. unfold entry_delta in H. cbn [entries_loop] in H. destruct (utf8_valid n).
    - rewrite (Fr (announce_read w_empty _)) in H.
      destruct (rec w_empty [] (indir ++ [47%N] ++ n) (pjoin outdir n) sub) as [[d1 g1]| |] eqn:R; cbn [lift2] in H; try discriminate.
      inversion H; subst d g; clear H.
      assert (O' : pjoin outdir n <> []) by (rewrite (pjoin_ne _ _ O); destruct outdir; [contradiction|discriminate]).
      destruct (G sub _ _ d1 g1 O' W R) as [ND CL].
      unfold pathsof in *. cbn [plan write_if_changed wapp announce_read note_read say w_empty app]. rewrite map_app. cbn [map fst].
      rewrite (pjoin_ne _ (b "mod.rs") O'). rewrite (pjoin_ne _ n O) in *. split.
      + apply NoDup_app_intro; [exact ND|repeat constructor; intros []|].
        intros p I [<-|[]]. destruct (CL _ I) as [n' [x' [I' C]]]. destruct x' as [c'|sub']; cbn [cls] in C.
        * destruct C as [s [_ [_ C]]]. apply app_inv_head in C. apply app_inv_head in C. exact (modrs_not_tname _ _ C).
        * destruct C as [rest C]. apply app_inv_head in C. apply app_inv_head in C. apply modrs_nos. rewrite C. apply in_app_iff. right. now left.
      + intros p I. apply in_app_iff in I. cbn [cls]. destruct I as [I|[<-|[]]].
        * destruct (CL _ I) as [n' [x' [I' C]]]. destruct x' as [c'|sub']; cbn [cls] in C.
          -- destruct C as [s [_ [_ ->]]]. exists (tname n' s). now rewrite <- !app_assoc.
          -- destruct C as [rest ->]. exists (n' ++ [47%N] ++ rest). now rewrite <- !app_assoc.
        * exists (b "mod.rs"). now rewrite <- !app_assoc.
    - cbn in H. inversion H; subst. unfold pathsof. cbn. split; [constructor|intros p []].
  Qed.

  Lemma loop_paths rec (G : good_rec rec) : forall es indir outdir d g, outdir <> [] -> wf_es es ->
    entries_loop uni_esc compile rec w_empty [] indir outdir es = BOk _ (d, g) -> paths_ok outdir es d.
  Proof.
    induction es as [|e rest IH]; intros indir outdir d g O W H.
    - cbn in H. inversion H; subst. unfold paths_ok, pathsof. cbn. split; [constructor|intros p []].
    - pose proof G as [Fr _].
      rewrite (loop_cons uni_esc compile rec Fr indir outdir w_empty [] e rest) in H.
      destruct (delta rec indir outdir e) as [[d0 g0]| |] eqn:D; try discriminate.
      rewrite wapp_empty_l in H. cbn [app] in H.
      rewrite (entries_loop_frame uni_esc compile rec Fr d0 g0 indir outdir rest) in H.
      destruct (entries_loop uni_esc compile rec w_empty [] indir outdir rest) as [[d1 g1]| |] eqn:L; cbn [lift2] in H; try discriminate.
      inversion H; subst d g; clear H.
      destruct (IH indir outdir d1 g1 O (wf_tail _ _ W) L) as [ND1 CL1].
      assert (P : pathsof (wapp d0 d1) = pathsof d0 ++ pathsof d1) by (unfold pathsof; cbn [plan wapp]; now rewrite map_app).
      inversion W as [es0 NDn NS SUB]; subst.
      assert (E0 : NoDup (pathsof d0) /\ forall p, In p (pathsof d0) -> cls outdir (fst e) (snd e) p).
      { destruct e as [n [c|sub]]; cbn [fst snd].
        - exact (file_delta rec indir outdir n c d0 g0 O D).
        - apply (dir_delta rec G indir outdir n sub d0 g0 O); [apply (SUB n sub); now left|exact D]. }
      destruct E0 as [ND0 CL0]. unfold paths_ok. rewrite P. split.
      + apply NoDup_app_intro; [exact ND0|exact ND1|]. intros p I0 I1.
        destruct (CL1 _ I1) as [n' [x' [I' C']]]. specialize (CL0 _ I0).
        assert (EQ : fst e = n').
        { apply (cls_same_name outdir (fst e) (snd e) n' x' p); [apply (NS (fst e) (snd e)); left; now destruct e|apply (NS n' x'); now right|exact CL0|exact C']. }
        subst n'. cbn [map] in NDn. inversion NDn as [|a l Hn Hl]. apply Hn. change (fst e) with (fst (fst e, x')). now apply in_map.
      + intros p I. apply in_app_iff in I. destruct I as [I|I].
        * exists (fst e), (snd e). split; [left; now destruct e|now apply CL0].
        * destruct (CL1 _ I) as [n' [x' [I' C']]]. exists n', x'. split; [now right|exact C'].
  Qed.

  Theorem he_paths fuel : good_rec (HE fuel).
  Proof.
    induction fuel as [|n IH]; split; try apply handle_entries_frame.
    - intros sub indir outdir d g _ _ H. discriminate.
    - intros sub indir outdir d g O W H. cbn [handle_entries] in H. exact (loop_paths (HE n) IH sub indir outdir d g O W H).
  Qed.
End Paths.

(* ---- whole scripts: one compile_templates and one StaticFiles, in either order ---- *)
Fixpoint shape_ok (seenC seenS : bool) (cs : list call) : bool :=
  match cs with
  | [] => true
  | PCompile _ :: r => negb seenC && shape_ok true seenS r
  | PStatics _ :: r => negb seenS && shape_ok seenC true r
  end.

Lemma find_entry_in_name c es y : find_entry c es = Some y -> In (c, y) es.
Proof.
  induction es as [|[n x] r IH]; cbn [find_entry]; [discriminate|]. destruct (beqb n c) eqn:E.
  - apply beqb_true in E. subst. intros [= ->]. now left.
  - intros H. right. now apply IH.
Qed.
Lemma find_node_wf comps : forall t x, wf_node t -> find_node t comps = Some x -> wf_node x.
Proof.
  induction comps as [|c r IH]; intros t x W; cbn [find_node]; [now intros [= <-]|].
  destruct t as [content|es]; [discriminate|]. destruct (find_entry c es) as [y|] eqn:E; [|discriminate].
  apply IH. apply find_entry_in_name in E. cbn in W. inversion W as [es0 _ _ SUB]; subst. destruct y as [cy|sub]; [exact I|]. exact (SUB c sub E).
Qed.

Section Script.
  Variable uni_esc uni_alnum : N -> bool.
  Variable compile : bytes -> bytes -> coutcome.
  Variable utils_src statics_header : bytes.
  Variable mm : mime_mode.
  Notation HE := (handle_entries uni_esc compile).

  Definition p_utils : bytes := b "templates/_utils.rs".
  Definition p_statics : bytes := b "templates/statics.rs".
  Definition p_top : bytes := b "templates.rs".
  Definition walk_path (p : bytes) : Prop := exists n x, cls (b "templates") n x p.

  Lemma walk_not_fixed p : walk_path p -> p <> p_utils /\ p <> p_statics /\ p <> p_top.
  Proof.
    intros [n [[c|sub] C]]; cbn [cls] in C.
    - destruct C as [s [_ [_ ->]]]. unfold tname. cbn. repeat split; discriminate.
    - destruct C as [rest ->]. repeat split; intros E.
      + change p_utils with (b "templates" ++ [47%N] ++ b "_utils.rs") in E. apply app_inv_head in E. apply app_inv_head in E.
        assert (J : In 47%N (b "_utils.rs")) by (rewrite <- E; apply in_app_iff; right; now left).
        cbn in J. repeat (destruct J as [J|J]; [discriminate|]). exact J.
      + change p_statics with (b "templates" ++ [47%N] ++ b "statics.rs") in E. apply app_inv_head in E. apply app_inv_head in E.
        assert (J : In 47%N (b "statics.rs")) by (rewrite <- E; apply in_app_iff; right; now left).
        cbn in J. repeat (destruct J as [J|J]; [discriminate|]). exact J.
      + change p_top with (b "templates" ++ b ".rs") in E. apply app_inv_head in E. discriminate.
  Qed.

  (* the static-files calls write nothing themselves *)
  Lemma fold_plan {X} (g : sstate -> X -> sstate) (l : list X) :
    (forall s x, plan (sw (g s x)) = plan (sw s)) -> forall s, plan (sw (fold_left g l s)) = plan (sw s).
  Proof. intros H. induction l as [|x l IH]; intros s; [reflexivity|]. cbn [fold_left]. now rewrite IH, H. Qed.
  Lemma add_file_plan s p c : plan (sw (add_file uni_esc uni_alnum mm s p c)) = plan (sw s).
  Proof. unfold add_file. destruct (name_and_ext p); reflexivity. Qed.
  Lemma add_files_as_plan fuel : forall s dir to es, plan (sw (add_files_as uni_esc uni_alnum mm fuel s dir to es)) = plan (sw s).
  Proof.
    induction fuel as [|n IH]; intros s dir to es; [reflexivity|]. cbn [add_files_as].
    rewrite fold_plan; [reflexivity|]. intros s0 [name [c|sub]]; [reflexivity|apply IH].
  Qed.
  Lemma do_scall_plan tree base s c s' : do_scall uni_esc uni_alnum mm tree base s c = Some s' -> plan (sw s') = plan (sw s).
  Proof.
    destruct c as [rel|rel|rel url|rel to|path data|rel ref|rel css]; cbn [do_scall].
    - destruct (find_node tree (split_path rel [])) as [[content|es]|]; try discriminate. intros [= <-]. apply add_file_plan.
    - destruct (find_node tree (split_path rel [])) as [[content|es]|]; try discriminate. intros [= <-]. unfold add_files.
      rewrite fold_plan; [reflexivity|]. intros s0 [name [c|sub]]; [apply add_file_plan|reflexivity].
    - destruct (find_node tree (split_path rel [])) as [[content|es]|]; try discriminate. intros [= <-]. reflexivity.
    - destruct (find_node tree (split_path rel [])) as [[content|es]|]; try discriminate. intros [= <-]. apply add_files_as_plan.
    - intros [= <-]. reflexivity.
    - destruct (sass_ref uni_esc uni_alnum mm (st (sannounce s (path_for base rel))) (path_for base rel) ref) as [st' [|]]; [|discriminate].
      intros [= <-]. reflexivity.
    - intros [= <-]. reflexivity.
  Qed.

  Definition inv (seenC seenS : bool) (w : world) : Prop :=
    NoDup (pathsof w) /\ forall p, In p (pathsof w) -> p = p_utils \/ (seenS = true /\ p = p_statics) \/ (seenC = true /\ walk_path p).

  Lemma run_calls_inv tree base (W : wf_node tree) cs : forall seenC seenS w f w' f',
    shape_ok seenC seenS cs = true -> inv seenC seenS w ->
    run_calls uni_esc uni_alnum compile statics_header mm tree base w f cs = (w', f', true) ->
    exists c s, inv c s w'.
  Proof.
    induction cs as [|c cs IH]; intros seenC seenS w f w' f' S Iw H.
    - cbn in H. inversion H; subst. now exists seenC, seenS.
    - destruct c as [rel|scs]; cbn [shape_ok] in S; apply andb_true_iff in S; destruct S as [S1 S2]; apply negb_true_iff in S1; subst; cbn [run_calls] in H.
      + destruct (find_node tree (split_path rel [])) as [[content|es]|] eqn:F; try discriminate.
        rewrite (handle_entries_frame uni_esc compile (depth tree) (announce_read w (path_for base rel)) f) in H.
        destruct (HE (depth tree) w_empty [] (path_for base rel) (b "templates") es) as [[d g]| |] eqn:E; cbn [lift2] in H; try discriminate.
        assert (Wes : wf_es es) by exact (find_node_wf _ _ _ W F).
        destruct (he_paths uni_esc compile (depth tree)) as [_ G].
        assert (O : b "templates" <> []) by discriminate.
        destruct (G es _ _ d g O Wes E) as [NDd CLd]. destruct Iw as [NDw CLw].
        apply (IH true seenS _ _ _ _ S2) in H; [exact H|]. split.
        * unfold pathsof. cbn [plan wapp announce_read note_read say]. rewrite map_app. apply NoDup_app_intro; [exact NDw|exact NDd|].
          intros p I1 I2. destruct (CLd _ I2) as [n [x [_ C]]]. assert (WP : walk_path p) by (now exists n, x).
          destruct (walk_not_fixed p WP) as [A1 [A2 A3]]. destruct (CLw _ I1) as [->|[[_ ->]|[X _]]]; [now apply A1|now apply A2|discriminate].
        * unfold pathsof. cbn [plan wapp announce_read note_read say]. rewrite map_app. intros p I. apply in_app_iff in I. destruct I as [I|I].
          -- destruct (CLw _ I) as [->|[[X ->]|[X _]]]; [now left|right; left; now split|discriminate].
          -- right. right. split; [reflexivity|]. destruct (CLd _ I) as [n [x [_ C]]]. now exists n, x.
      + match type of H with context [(fix go (s : sstate) (l : list scall) {struct l} : sstate * bool := _) ?s0 ?l0] =>
          set (GO := (fix go (s : sstate) (l : list scall) {struct l} : sstate * bool :=
                        match l with
                        | [] => (s, true)
                        | c :: r => match do_scall uni_esc uni_alnum mm tree base s c with Some s' => go s' r | None => (s, false) end
                        end)) in *;
          assert (G : forall l s, plan (sw (fst (GO s l))) = plan (sw s)) end.
        { induction l as [|c0 l IHl]; intros s; [reflexivity|]. cbn.
          destruct (do_scall uni_esc uni_alnum mm tree base s c0) as [s'|] eqn:E; [|reflexivity].
          rewrite IHl. eapply do_scall_plan; eauto. }
        specialize (G scs {| st := empty_statics statics_header; sw := w |}).
        destruct (GO {| st := empty_statics statics_header; sw := w |} scs) as [s ok]. cbn [fst sw] in G.
        destruct ok; [|discriminate]. destruct Iw as [NDw CLw].
        apply (IH seenC true _ _ _ _ S2) in H; [exact H|]. split.
        * unfold pathsof. cbn [plan write_if_changed]. rewrite G, map_app. cbn [map fst]. apply NoDup_app_intro; [exact NDw|repeat constructor; intros []|].
          intros p I1 [<-|[]]. destruct (CLw _ I1) as [X|[[X _]|[_ X]]]; [discriminate|discriminate|]. now destruct (walk_not_fixed _ X) as [_ [A2 _]].
        * unfold pathsof. cbn [plan write_if_changed]. rewrite G, map_app. cbn [map fst]. intros p I. apply in_app_iff in I. destruct I as [I|[<-|[]]].
          -- destruct (CLw _ I) as [->|[[X _]|[X Y]]]; [now left|discriminate|right; right; now split].
          -- right. left. now split.
  Qed.

  (* a build script that calls compile_templates at most once and uses at most one StaticFiles, in
     either order, on a well-formed input tree: every file of OUT_DIR is planned at most once *)
  Theorem script_paths_distinct tree base cs : wf_node tree -> shape_ok false false cs = true ->
    snd (run_script uni_esc uni_alnum compile utils_src statics_header mm tree base cs) = true ->
    NoDup (map fst (plan (fst (run_script uni_esc uni_alnum compile utils_src statics_header mm tree base cs)))).
  Proof.
    intros W S. unfold run_script, ructe_new. cbv zeta.
    destruct (run_calls uni_esc uni_alnum compile statics_header mm tree base _ _ cs) as [[w2 f2] ok] eqn:R. cbn [fst snd]. intros ->.
    assert (I0 : inv false false (write_if_changed {| plan := []; out := []; reads := [] |} (b "templates/_utils.rs") utils_src)).
    { split; [repeat constructor; intros []|]. intros p [<-|[]]. now left. }
    destruct (run_calls_inv tree base W cs false false _ _ _ _ S I0 R) as [c [s [ND CL]]].
    unfold ructe_drop. cbn [plan write_if_changed]. rewrite map_app. cbn [map fst]. apply NoDup_app_intro; [exact ND|repeat constructor; intros []|].
    intros p I [<-|[]]. destruct (CL _ I) as [X|[[_ X]|[_ X]]]; [discriminate|discriminate|]. now destruct (walk_not_fixed _ X) as [_ [_ A3]].
  Qed.
End Script.
