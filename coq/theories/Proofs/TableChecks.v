(* Conditions on the translator-generated tables, decided by computation against the
   current Tables.v (re-run whenever /repo's source changes the tables). *)
From Ructe Require Import Tables Io IoProofs EscapeProofs.

Lemma entities_nonempty_ok : entities_nonempty = true. Proof. vm_compute. reflexivity. Qed.
Lemma codes_prefix_free_ok : codes_prefix_free = true. Proof. vm_compute. reflexivity. Qed.
Lemma entity_shape_ok_ok : entity_shape_ok = true. Proof. vm_compute. reflexivity. Qed.
(* the five bytes of the property: dquote amp squote lt gt *)
Lemma special_bytes_are_the_five :
  forallb (fun c => special c) [34;38;39;60;62]%N = true /\
  forallb (fun c => negb (special c) || memN c [34;38;39;60;62]%N) (map N.of_nat (seq 0 256)) = true.
Proof. split; vm_compute; reflexivity. Qed.
