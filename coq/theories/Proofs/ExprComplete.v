(* The completeness direction of the @expression grammar (C05): a declarative grammar [XE] of the
   documented form -- optional & or * prefix; a name, number, string literal or bracketed group;
   any chain of .member, ::path, (..), [..], {..}, !(..), ![..] with balanced delimiters in which
   string literals and block comments hide the delimiters they contain -- and the theorem that
   `expression` takes exactly the text the grammar derives and stops where no postfix form starts. *)
From Coq Require Import Lia.
From Ructe Require Import Nom NomFacts Utf8 Spacelike Expression ParserProofs DiagProofs SpaceProofs TextProofs ExprProofs RoundTrip.
Local Open Scope string_scope.
Local Open Scope list_scope.

Definition slice (i r : bytes) : bytes := firstn (List.length i - List.length r) i.

Lemma recognize_ok {A} (p : parser A) i a r : p i = Ok a r -> recognize p i = Ok (slice i r) r.
Proof. intros H. unfold recognize, slice. now rewrite H. Qed.
Lemma map_res_to_str_ok (p : parser bytes) i a r : p i = Ok a r -> utf8_valid a = true -> map_res p to_str i = Ok a r.
Proof. intros H V. unfold map_res, to_str. now rewrite H, V. Qed.
Lemma unitp_ok {A} (p : parser A) i a r : p i = Ok a r -> unitp p i = Ok tt r.
Proof. intros H. unfold unitp, value. now rewrite (pmap_ok _ _ _ _ _ H). Qed.
Lemma unitp_err {A} (p : parser A) i e : p i = Err e -> unitp p i = Err e.
Proof. intros H. unfold unitp, value, pmap. now rewrite H. Qed.
Lemma tag_head_ne t c x r : t = c :: List.tl t -> N.eqb c x = false -> exists e, tag t (x :: r) = Err e.
Proof. intros Ht H. rewrite Ht. unfold tag. cbn [strip_prefix]. rewrite H. eexists. reflexivity. Qed.
Lemma tag_nil_err t : t <> [] -> exists e, tag t [] = Err e.
Proof. destruct t; [congruence|]. intros _. eexists. reflexivity. Qed.

(* which byte opens which group *)
Definition opener (y : nt) : N := match y with NParens => 40 | NBrackets => 91 | NBraces => 123 | _ => 0 end%N.
Definition is_group (y : nt) : Prop := y = NParens \/ y = NBrackets \/ y = NBraces.

(* a group parser fails at once on an input that does not start with its opening delimiter *)
Lemma group_wrong_head n y i : is_group y -> (forall t, i <> opener y :: t) -> exists e, expr_gram (S n) y i = Err e.
Proof.
  intros G H. cbn [expr_gram]. unfold exprF, exprF_gen. cbv zeta.
  destruct G as [-> | [-> | ->]]; cbn [opener] in H; unfold map_res, recognize, delimited, preceded, bind;
    (destruct i as [|x t]; [eexists; reflexivity|]);
    match goal with |- context [tag ?tg (x :: t)] => unfold tag; cbn [strip_prefix b map String.list_ascii_of_string] end;
    match goal with |- context [N.eqb ?c x] => destruct (N.eqb c x) eqn:X end;
    try (eexists; reflexivity); apply N.eqb_eq in X; subst x; exfalso; now apply (H t).
Qed.

(* the item loops of the three kinds of group, as the model writes them *)
Definition set_of (ctx : bool) : bytes := if ctx then b "[]()""/" else b "{}[]()""/".
Definition items_inside (self : nt -> parser bytes) : parser unit :=
  alt [ unitp (is_not (b "{}[]()""/")); unitp (fun j => self NBraces j); unitp (fun j => self NBrackets j); unitp (fun j => self NParens j);
        unitp quoted_string; unitp rust_comment; slash_now ].
Definition items_group (ctx : bool) (self : nt -> parser bytes) : parser unit :=
  alt [ unitp (is_not (set_of ctx)); unitp (fun j => self NBrackets j); unitp (fun j => self NBraces j); unitp (fun j => self NParens j);
        unitp quoted_string; unitp rust_comment; slash_now ].

(* ---- the declarative grammar, indexed by the fuel at which the parser is run ---- *)
Inductive XG : nat -> nt -> bytes -> bytes -> Prop :=
| XG_paren n i1 r : XIs false (S n) i1 (41%N :: r) -> utf8_valid (slice i1 (41%N :: r)) = true -> utf8_valid (slice (40%N :: i1) r) = true ->
    XG (S (S (S n))) NParens (40%N :: i1) r
| XG_brack n i1 r : XIs true (S n) i1 (93%N :: r) -> utf8_valid (slice (91%N :: i1) r) = true -> XG (S (S n)) NBrackets (91%N :: i1) r
| XG_brace n i1 r : XIs false (S n) i1 (125%N :: r) -> utf8_valid (slice (123%N :: i1) r) = true -> XG (S (S n)) NBraces (123%N :: i1) r
(* the items between the delimiters: runs of ordinary bytes, nested groups, string literals, block comments, division signs *)
with XIs : bool -> nat -> bytes -> bytes -> Prop :=
| XIs_nil ctx n r : XIs ctx n r r
| XIs_cons ctx n i i1 r : XI ctx n i i1 -> List.length i1 < List.length i -> XIs ctx n i1 r -> XIs ctx n i r
with XI : bool -> nat -> bytes -> bytes -> Prop :=
| XI_run ctx n i a r : is_not (set_of ctx) i = Ok a r -> XI ctx n i r
| XI_group ctx n y i r : is_group y -> mem (opener y) (set_of ctx) = true -> XG n y i r -> XI ctx n i r
| XI_str ctx n s i r : quoted_string (34%N :: i) = Ok s r -> XI ctx (S n) (34%N :: i) r
| XI_cmt ctx n c i r : rust_comment (47%N :: i) = Ok c r -> XI ctx (S n) (47%N :: i) r
| XI_slash ctx n r : (forall t, r <> 42%N :: t) -> XI ctx (S n) (47%N :: r) r.

Inductive XA : nat -> bytes -> bytes -> Prop :=
| XA_name n a i r : rust_name i = Ok a r -> XA n i r
| XA_num n e a i r : rust_name i = Err e -> map_res digit1 to_str i = Ok a r -> XA n i r
| XA_str n s i r : quoted_string (34%N :: i) = Ok s r -> XA n (34%N :: i) r
| XA_paren n i r : XG n NParens i r -> XA n i r
| XA_brack n i r : XG n NBrackets i r -> XA n i r.

Inductive XE : nat -> bytes -> bytes -> Prop :=
| XE_mk n p i i1 i2 r : prefix_alt i = Ok p i1 -> XA n i1 i2 -> XPs n i2 r ->
    (exists e, postfix_alt (expr_gram n) r = Err e) -> utf8_valid (slice i r) = true -> XE (S n) i r
with XPs : nat -> bytes -> bytes -> Prop :=
| XPs_nil n r : XPs n r r
| XPs_cons n i i1 r : XP n i i1 -> List.length i1 < List.length i -> XPs n i1 r -> XPs n i r
with XP : nat -> bytes -> bytes -> Prop :=
| XP_dot n i r : XE n i r -> XP n (46%N :: i) r
| XP_path n i r : XE n i r -> XP n (58%N :: 58%N :: i) r
| XP_group n y i r : is_group y -> XG n y i r -> XP n i r
| XP_bang n y i r : y = NParens \/ y = NBrackets -> XG n y i r -> XP n (33%N :: i) r.

Scheme XG_mind := Minimality for XG Sort Prop
  with XIs_mind := Minimality for XIs Sort Prop
  with XI_mind := Minimality for XI Sort Prop.
Combined Scheme group_mind from XG_mind, XIs_mind, XI_mind.
Scheme XE_mind := Minimality for XE Sort Prop
  with XPs_mind := Minimality for XPs Sort Prop
  with XP_mind := Minimality for XP Sort Prop.
Combined Scheme expr_mind from XE_mind, XPs_mind, XP_mind.

(* ---- why each alternative of an item loop fails where it should ---- *)
Lemma is_not_special set c t : mem c set = true -> exists e, is_not set (c :: t) = Err e.
Proof. intros H. unfold is_not, take_while1. cbn [span]. rewrite H. cbn. eexists. reflexivity. Qed.
Lemma is_not_nil set : exists e, is_not set [] = Err e.
Proof. eexists. reflexivity. Qed.
Lemma quoted_wrong_head i : (forall t, i <> 34%N :: t) -> exists e, quoted_string i = Err e.
Proof.
  intros H. unfold quoted_string, map_res, recognize, delimited, preceded, bind. destruct i as [|x t]; [eexists; reflexivity|].
  cbn [char]. destruct (N.eqb x 34) eqn:X; [|eexists; reflexivity]. apply N.eqb_eq in X. subst x. exfalso. now apply (H t).
Qed.
Lemma comment_wrong_head i : (forall t, i <> 47%N :: 42%N :: t) -> exists e, rust_comment i = Err e.
Proof.
  intros H. unfold rust_comment, delimited, preceded, bind, tag. cbn [b map String.list_ascii_of_string].
  change (N_of_ascii "/") with 47%N. change (N_of_ascii "*") with 42%N.
  destruct i as [|x [|y t]]; cbn [strip_prefix].
  - eexists. reflexivity.
  - destruct (N.eqb 47 x); eexists; reflexivity.
  - destruct (N.eqb 47 x) eqn:X; [|eexists; reflexivity]. destruct (N.eqb 42 y) eqn:Y; [|eexists; reflexivity].
    apply N.eqb_eq in X, Y. subst x y. exfalso. now apply (H t).
Qed.
Lemma slash_wrong_head i : (forall t, i <> 47%N :: t) -> exists e, slash_now i = Err e.
Proof.
  intros H. unfold slash_now, unitp, value, pmap, terminated, bind, tag. cbn [b map String.list_ascii_of_string]. change (N_of_ascii "/") with 47%N.
  destruct i as [|x t]; cbn [strip_prefix]; [eexists; reflexivity|].
  destruct (N.eqb 47 x) eqn:X; [|eexists; reflexivity]. apply N.eqb_eq in X. subst x. exfalso. now apply (H t).
Qed.
Lemma slash_ok r : (forall t, r <> 42%N :: t) -> slash_now (47%N :: r) = Ok tt r.
Proof.
  intros H. destruct r as [|c t]; [reflexivity|]. apply slash_now_spec.
  destruct (N.eqb c 42) eqn:X; [|reflexivity]. apply N.eqb_eq in X. subst c. exfalso. now apply (H t).
Qed.

Section Items.
  Variable n : nat.
  Notation self := (expr_gram (S n)).
  (* the seven alternatives, with the three groups in either order *)
  Variables g1 g2 g3 : nt.
  Hypothesis G1 : is_group g1. Hypothesis G2 : is_group g2. Hypothesis G3 : is_group g3.
  Variable set : bytes.
  Definition items7 : parser unit :=
    alt [ unitp (is_not set); unitp (fun j => self g1 j); unitp (fun j => self g2 j); unitp (fun j => self g3 j);
          unitp quoted_string; unitp rust_comment; slash_now ].

  Ltac skip F := let e := fresh "e" in let H := fresh "H" in destruct F as [e H]; rewrite (alt'_skip _ _ _ _ _ H).
  Ltac skipu F := let e := fresh "e" in let H := fresh "H" in destruct F as [e H]; rewrite (alt'_skip _ _ _ _ _ (unitp_err _ _ _ H)).

  Lemma items7_run i a r : is_not set i = Ok a r -> items7 i = Ok tt r.
  Proof. intros H. unfold items7, alt. apply alt'_first. now apply unitp_ok with (a := a). Qed.

  Lemma items7_group y i a r : (y = g1 \/ y = g2 \/ y = g3) -> g1 <> g2 -> g1 <> g3 -> g2 <> g3 ->
    (forall t, i = opener y :: t -> mem (opener y) set = true) -> (exists t, i = opener y :: t) ->
    self y i = Ok a r -> items7 i = Ok tt r.
  Proof.
    intros Hy D12 D13 D23 Hs [t ->] H. specialize (Hs t eq_refl). unfold items7, alt.
    skipu (is_not_special set (opener y) t Hs).
    assert (W : forall z, is_group z -> z <> y -> exists e, self z (opener y :: t) = Err e).
    { intros z Gz Nz. apply group_wrong_head; [exact Gz|]. intros t' E. injection E as E _.
      destruct Gz as [-> | [-> | ->]], y; cbn in E; try discriminate; try congruence;
        destruct Hy as [<- | [<- | <-]]; destruct G1 as [? | [? | ?]], G2 as [? | [? | ?]], G3 as [? | [? | ?]]; congruence. }
    destruct Hy as [-> | [-> | ->]].
    - apply alt'_first. now apply unitp_ok with (a := a).
    - skipu (W g1 G1 D12). apply alt'_first. now apply unitp_ok with (a := a).
    - skipu (W g1 G1 D13). skipu (W g2 G2 D23). apply alt'_first. now apply unitp_ok with (a := a).
  Qed.

  Hypothesis D12 : g1 <> g2. Hypothesis D13 : g1 <> g3. Hypothesis D23 : g2 <> g3.

  (* all three group alternatives fail on an input that opens none of them *)
  Lemma groups_fail i : (forall t, i <> 40%N :: t) -> (forall t, i <> 91%N :: t) -> (forall t, i <> 123%N :: t) ->
    forall y, is_group y -> exists e, self y i = Err e.
  Proof.
    intros H1 H2 H3 y Gy. apply group_wrong_head; [exact Gy|]. destruct Gy as [-> | [-> | ->]]; cbn [opener]; assumption.
  Qed.
  Lemma items7_str i s r : mem 34%N set = true -> quoted_string (34%N :: i) = Ok s r -> items7 (34%N :: i) = Ok tt r.
  Proof.
    intros Hs H. unfold items7, alt. skipu (is_not_special set 34%N i Hs).
    assert (W : forall y, is_group y -> exists e, self y (34%N :: i) = Err e) by (apply groups_fail; intros t; discriminate).
    skipu (W g1 G1). skipu (W g2 G2). skipu (W g3 G3). apply alt'_first. now apply unitp_ok with (a := s).
  Qed.
  Lemma items7_cmt i c r : mem 47%N set = true -> rust_comment (47%N :: i) = Ok c r -> items7 (47%N :: i) = Ok tt r.
  Proof.
    intros Hs H. unfold items7, alt. skipu (is_not_special set 47%N i Hs).
    assert (W : forall y, is_group y -> exists e, self y (47%N :: i) = Err e) by (apply groups_fail; intros t; discriminate).
    skipu (W g1 G1). skipu (W g2 G2). skipu (W g3 G3).
    assert (Q : exists e0, quoted_string (47%N :: i) = Err e0) by (apply quoted_wrong_head; intros t; discriminate).
    skipu Q. apply alt'_first. now apply unitp_ok with (a := c).
  Qed.
  Lemma items7_slash r : mem 47%N set = true -> (forall t, r <> 42%N :: t) -> items7 (47%N :: r) = Ok tt r.
  Proof.
    intros Hs H. unfold items7, alt. skipu (is_not_special set 47%N r Hs).
    assert (W : forall y, is_group y -> exists e, self y (47%N :: r) = Err e) by (apply groups_fail; intros t; discriminate).
    skipu (W g1 G1). skipu (W g2 G2). skipu (W g3 G3).
    assert (Q : exists e0, quoted_string (47%N :: r) = Err e0) by (apply quoted_wrong_head; intros t; discriminate).
    assert (C : exists e0, rust_comment (47%N :: r) = Err e0) by (apply comment_wrong_head; intros t E; injection E as E; now apply (H t)).
    skipu Q. skipu C. apply alt'_first. now apply slash_ok.
  Qed.
  (* at a closing delimiter (any special byte that opens nothing) the loop stops *)
  Lemma items7_stop c r : mem c set = true -> c <> 40%N -> c <> 91%N -> c <> 123%N -> c <> 34%N -> c <> 47%N ->
    exists e, items7 (c :: r) = Err e.
  Proof.
    intros Hs N1 N2 N3 N4 N5. unfold items7, alt. skipu (is_not_special set c r Hs).
    assert (W : forall y, is_group y -> exists e, self y (c :: r) = Err e) by (apply groups_fail; intros t E; injection E as E; congruence).
    skipu (W g1 G1). skipu (W g2 G2). skipu (W g3 G3).
    assert (Q : exists e0, quoted_string (c :: r) = Err e0) by (apply quoted_wrong_head; intros t E; injection E as E; congruence).
    assert (C : exists e0, rust_comment (c :: r) = Err e0) by (apply comment_wrong_head; intros t E; injection E as E; congruence).
    assert (L : exists e0, slash_now (c :: r) = Err e0) by (apply slash_wrong_head; intros t E; injection E as E; congruence).
    skipu Q. skipu C. destruct L as [eL He]. cbn [alt']. rewrite He. eexists. reflexivity.
  Qed.
End Items.

(* the two orders in which the model lists the group alternatives *)
Definition itemsA (n : nat) (ctx : bool) : parser unit := items7 n NBraces NBrackets NParens (set_of ctx).
Definition itemsB (n : nat) (ctx : bool) : parser unit := items7 n NBrackets NBraces NParens (set_of ctx).

Lemma unfold_inside n i : expr_gram (S (S n)) NInside i = map_res (recognize (many0 (itemsA n false))) to_str i.
Proof. reflexivity. Qed.
Lemma unfold_parens n i : expr_gram (S n) NParens i =
  map_res (recognize (delimited (tag (b "(")) (fun j => expr_gram n NInside j) (tag (b ")")))) to_str i.
Proof. reflexivity. Qed.
Lemma unfold_brackets n i : expr_gram (S (S n)) NBrackets i =
  map_res (recognize (delimited (tag (b "[")) (many0 (itemsB n true)) (tag (b "]")))) to_str i.
Proof. reflexivity. Qed.
Lemma unfold_braces n i : expr_gram (S (S n)) NBraces i =
  map_res (recognize (delimited (tag (b "{")) (many0 (itemsB n false)) (tag (b "}")))) to_str i.
Proof. reflexivity. Qed.

Lemma good_items7 n g1 g2 g3 set : good (items7 n g1 g2 g3 set).
Proof.
  unfold items7. pose proof good_quoted_string. pose proof good_rust_comment. pose proof good_slash_now.
  assert (HS : forall y, good (fun j => expr_gram (S n) y j)) by (intros; apply good_eta, good_expr_gram).
  good_auto; apply HS.
Qed.
Lemma mem_set_34 ctx : mem 34%N (set_of ctx) = true. Proof. destruct ctx; reflexivity. Qed.
Lemma mem_set_47 ctx : mem 47%N (set_of ctx) = true. Proof. destruct ctx; reflexivity. Qed.

Definition units (k : nat) : list unit := repeat tt k.
Ltac grp := first [left; reflexivity | right; left; reflexivity | right; right; reflexivity].

(* groups: the parser takes exactly the delimited text *)
Theorem group_complete :
  (forall n y i r, XG n y i r -> expr_gram n y i = Ok (slice i r) r) /\
  (forall ctx n i r, XIs ctx n i r -> forall n', n = S n' ->
     exists k, steps (itemsA n' ctx) (units k) i r /\ steps (itemsB n' ctx) (units k) i r) /\
  (forall ctx n i r, XI ctx n i r -> forall n', n = S n' -> itemsA n' ctx i = Ok tt r /\ itemsB n' ctx i = Ok tt r).
Proof.
  apply group_mind.
  - (* ( .. ) *) intros n i1 r _ IH V1 V2. destruct (IH n eq_refl) as [k [SA _]].
    rewrite unfold_parens. apply map_res_to_str_ok; [|exact V2]. apply recognize_ok with (a := slice i1 (41%N :: r)).
    change (40%N :: i1) with (b "(" ++ i1). eapply delimited_ok; [apply tag_ok| |apply (tag_ok (b ")") r)].
    rewrite unfold_inside. apply map_res_to_str_ok; [|exact V1]. apply recognize_ok with (a := units k).
    destruct (items7_stop n NBraces NBrackets NParens ltac:(right; right; reflexivity) ltac:(right; left; reflexivity) ltac:(left; reflexivity) (set_of false) 41%N r)
      as [e He]; try reflexivity; try discriminate.
    exact (many0_steps _ (g_sfx (good_items7 n _ _ _ _)) _ _ _ _ SA He).
  - (* [ .. ] *) intros n i1 r _ IH V. destruct (IH n eq_refl) as [k [_ SB]].
    rewrite unfold_brackets. apply map_res_to_str_ok; [|exact V]. apply recognize_ok with (a := units k).
    change (91%N :: i1) with (b "[" ++ i1). eapply delimited_ok; [apply tag_ok| |apply (tag_ok (b "]") r)].
    destruct (items7_stop n NBrackets NBraces NParens ltac:(right; left; reflexivity) ltac:(right; right; reflexivity) ltac:(left; reflexivity) (set_of true) 93%N r)
      as [e He]; try reflexivity; try discriminate.
    exact (many0_steps _ (g_sfx (good_items7 n _ _ _ _)) _ _ _ _ SB He).
  - (* { .. } *) intros n i1 r _ IH V. destruct (IH n eq_refl) as [k [_ SB]].
    rewrite unfold_braces. apply map_res_to_str_ok; [|exact V]. apply recognize_ok with (a := units k).
    change (123%N :: i1) with (b "{" ++ i1). eapply delimited_ok; [apply tag_ok| |apply (tag_ok (b "}") r)].
    destruct (items7_stop n NBrackets NBraces NParens ltac:(right; left; reflexivity) ltac:(right; right; reflexivity) ltac:(left; reflexivity) (set_of false) 125%N r)
      as [e He]; try reflexivity; try discriminate.
    exact (many0_steps _ (g_sfx (good_items7 n _ _ _ _)) _ _ _ _ SB He).
  - (* no more items *) intros ctx n r n' _. exists 0. split; reflexivity.
  - intros ctx n i i1 r _ IH1 L _ IH2 n' E. destruct (IH1 n' E) as [A B0]. destruct (IH2 n' E) as [k [SA SB]].
    exists (S k). split; cbn [units repeat steps]; eexists; (split; [eassumption|split; [exact L|assumption]]).
  - (* a run of ordinary bytes *) intros ctx n i a r H n' _. split; now apply items7_run with (a := a).
  - (* a nested group *) intros ctx n y i r Gy Hm HG IH n' E. subst n.
    assert (Hd : exists t, i = opener y :: t) by (inversion HG; subst; cbn [opener]; eexists; reflexivity).
    split; (eapply items7_group; try exact IH; try exact Hd; try (intros; exact Hm); try discriminate;
            try (left; reflexivity); try (right; left; reflexivity); try (right; right; reflexivity);
            destruct Gy as [-> | [-> | ->]]; tauto).
  - (* string literal *) intros ctx n s i r H n' E. injection E as <-.
    split; (eapply items7_str; try grp; try discriminate; [apply mem_set_34|exact H]).
  - (* comment *) intros ctx n c i r H n' E. injection E as <-.
    split; (eapply items7_cmt; try grp; try discriminate; [apply mem_set_47|exact H]).
  - (* division *) intros ctx n r H n' E. injection E as <-.
    split; (eapply items7_slash; try grp; try discriminate; [apply mem_set_47|exact H]).
Qed.

(* ---- atoms, postfix forms, the whole expression ---- *)
Lemma XG_shape n y i r : XG n y i r -> is_group y /\ (exists n', n = S (S n')) /\ exists t, i = opener y :: t.
Proof. intros H. inversion H; subst; (split; [unfold is_group; tauto|split; eexists; reflexivity]). Qed.

Lemma unfold_expr n i : expr_gram (S n) NExpr i =
  map_res (recognize (context (b "Expected rust expression")
    (pair (pair prefix_alt (atom_alt (fun y j => expr_gram n y j))) (fold_many0_unit (postfix_alt (fun y j => expr_gram n y j)))))) to_str i.
Proof. reflexivity. Qed.

Lemma name_fails_on c t : is_alpha c = false -> N.eqb 95 c = false -> exists e, rust_name (c :: t) = Err e.
Proof.
  intros A U. unfold rust_name, map_res, recognize, pair, bind, alt. cbn [alt']. unfold tag. cbn [b map String.list_ascii_of_string strip_prefix].
  change (N_of_ascii "_") with 95%N. rewrite U. unfold alpha1, take_while1. cbn [span]. rewrite A. eexists. reflexivity.
Qed.
Lemma digits_fail_on c t : is_digit c = false -> exists e, map_res digit1 to_str (c :: t) = Err e.
Proof. intros D. unfold map_res, digit1, take_while1. cbn [span]. rewrite D. eexists. reflexivity. Qed.

Lemma atom_complete n i r : XA n i r -> exists a, atom_alt (fun y j => expr_gram n y j) i = Ok a r.
Proof.
  intros H. unfold atom_alt, alt. destruct H as [n a i r H|n e a i r H1 H2|n s i r H|n i r H|n i r H].
  - exists a. now apply alt'_first.
  - exists a. rewrite (alt'_skip _ _ _ _ _ H1). now apply alt'_first.
  - exists s. destruct (name_fails_on 34 i eq_refl eq_refl) as [e1 F1]. destruct (digits_fail_on 34 i eq_refl) as [e2 F2].
    rewrite (alt'_skip _ _ _ _ _ F1), (alt'_skip _ _ _ _ _ F2). now apply alt'_first.
  - destruct (XG_shape _ _ _ _ H) as [_ [_ [t ->]]]. cbn [opener]. exists (slice (40%N :: t) r).
    destruct (name_fails_on 40 t eq_refl eq_refl) as [e1 F1]. destruct (digits_fail_on 40 t eq_refl) as [e2 F2].
    destruct (quoted_wrong_head (40%N :: t) ltac:(intros t0; discriminate)) as [e3 F3].
    rewrite (alt'_skip _ _ _ _ _ F1), (alt'_skip _ _ _ _ _ F2), (alt'_skip _ _ _ _ _ F3). apply alt'_first.
    exact (proj1 group_complete _ _ _ _ H).
  - destruct (XG_shape _ _ _ _ H) as [_ [[n' ->] [t ->]]]. cbn [opener]. exists (slice (91%N :: t) r).
    destruct (name_fails_on 91 t eq_refl eq_refl) as [e1 F1]. destruct (digits_fail_on 91 t eq_refl) as [e2 F2].
    destruct (quoted_wrong_head (91%N :: t) ltac:(intros t0; discriminate)) as [e3 F3].
    destruct (group_wrong_head (S n') NParens (91%N :: t) ltac:(left; reflexivity) ltac:(intros t0; discriminate)) as [e4 F4].
    rewrite (alt'_skip _ _ _ _ _ F1), (alt'_skip _ _ _ _ _ F2), (alt'_skip _ _ _ _ _ F3), (alt'_skip _ _ _ _ _ F4). apply alt'_first.
    exact (proj1 group_complete _ _ _ _ H).
Qed.

Lemma good_postfix_n n : good (postfix_alt (fun y j => expr_gram n y j)).
Proof. apply good_postfix_alt. intros y. apply good_eta, good_expr_gram. Qed.

Theorem expr_complete :
  (forall n i r, XE n i r -> expr_gram n NExpr i = Ok (slice i r) r) /\
  (forall n i r, XPs n i r -> exists l, steps (postfix_alt (fun y j => expr_gram n y j)) l i r) /\
  (forall n i r, XP n i r -> exists a, postfix_alt (fun y j => expr_gram n y j) i = Ok a r).
Proof.
  apply expr_mind.
  - (* prefix, atom, chain *) intros n p i i1 i2 r Hp Ha _ [l Hl] [e He] V.
    rewrite unfold_expr. apply map_res_to_str_ok; [|exact V]. destruct (atom_complete _ _ _ Ha) as [a Hat].
    apply recognize_ok with (a := (p, a, tt)). apply context_ok.
    eapply pair_ok; [eapply pair_ok; [exact Hp|exact Hat]|].
    unfold fold_many0_unit. apply unitp_ok with (a := l). exact (many0_steps _ (g_sfx (good_postfix_n n)) _ _ _ _ Hl He).
  - intros n r. exists []. reflexivity.
  - intros n i i1 r _ [a Ha] L _ [l Hl]. exists (a :: l). cbn [steps]. exists i1. split; [exact Ha|]. split; [exact L|exact Hl].
  - (* .member *) intros n i r _ IH. exists (slice i r). unfold postfix_alt, alt. apply alt'_first.
    change (46%N :: i) with (b "." ++ i). rewrite (preceded_ok _ _ _ _ _ (context_ok _ _ _ _ _ (tag_ok (b ".") i))). exact IH.
  - (* ::path *) intros n i r _ IH. exists (slice i r). unfold postfix_alt, alt.
    assert (F : exists e, preceded (context (b "separator") (tag (b "."))) (fun j => expr_gram n NExpr j) (58%N :: 58%N :: i) = Err e) by (eexists; reflexivity).
    destruct F as [e F]. rewrite (alt'_skip _ _ _ _ _ F). apply alt'_first.
    change (58%N :: 58%N :: i) with (b "::" ++ i). rewrite (preceded_ok _ _ _ _ _ (tag_ok (b "::") i)). exact IH.
  - (* ( ) { } [ ] *) intros n y i r Gy HG. destruct (XG_shape _ _ _ _ HG) as [_ [[n' ->] [t ->]]].
    pose proof (proj1 group_complete _ _ _ _ HG) as HP. exists (slice (opener y :: t) r). unfold postfix_alt, alt.
    assert (F1 : exists e, preceded (context (b "separator") (tag (b "."))) (fun j => expr_gram (S (S n')) NExpr j) (opener y :: t) = Err e).
    { destruct Gy as [-> | [-> | ->]]; eexists; reflexivity. }
    assert (F2 : exists e, preceded (tag (b "::")) (fun j => expr_gram (S (S n')) NExpr j) (opener y :: t) = Err e).
    { destruct Gy as [-> | [-> | ->]]; eexists; reflexivity. }
    destruct F1 as [e1 F1]. destruct F2 as [e2 F2]. rewrite (alt'_skip _ _ _ _ _ F1), (alt'_skip _ _ _ _ _ F2).
    destruct Gy as [-> | [-> | ->]]; cbn [opener] in *.
    + apply alt'_first. exact HP.
    + destruct (group_wrong_head (S n') NParens (91%N :: t) ltac:(left; reflexivity) ltac:(intros t0; discriminate)) as [e3 F3].
      destruct (group_wrong_head (S n') NBraces (91%N :: t) ltac:(right; right; reflexivity) ltac:(intros t0; discriminate)) as [e4 F4].
      rewrite (alt'_skip _ _ _ _ _ F3), (alt'_skip _ _ _ _ _ F4). apply alt'_first. exact HP.
    + destruct (group_wrong_head (S n') NParens (123%N :: t) ltac:(left; reflexivity) ltac:(intros t0; discriminate)) as [e3 F3].
      rewrite (alt'_skip _ _ _ _ _ F3). apply alt'_first. exact HP.
  - (* !( ) ![ ] *) intros n y i r Hy HG. destruct (XG_shape _ _ _ _ HG) as [_ [[n' ->] [t ->]]].
    pose proof (proj1 group_complete _ _ _ _ HG) as HP. exists (slice (opener y :: t) r). unfold postfix_alt, alt.
    assert (F1 : exists e, preceded (context (b "separator") (tag (b "."))) (fun j => expr_gram (S (S n')) NExpr j) (33%N :: opener y :: t) = Err e) by (eexists; reflexivity).
    assert (F2 : exists e, preceded (tag (b "::")) (fun j => expr_gram (S (S n')) NExpr j) (33%N :: opener y :: t) = Err e) by (eexists; reflexivity).
    destruct F1 as [e1 F1]. destruct F2 as [e2 F2]. rewrite (alt'_skip _ _ _ _ _ F1), (alt'_skip _ _ _ _ _ F2).
    destruct (group_wrong_head (S n') NParens (33%N :: opener y :: t) ltac:(left; reflexivity) ltac:(intros t0; discriminate)) as [e3 F3].
    destruct (group_wrong_head (S n') NBraces (33%N :: opener y :: t) ltac:(right; right; reflexivity) ltac:(intros t0; discriminate)) as [e4 F4].
    destruct (group_wrong_head (S n') NBrackets (33%N :: opener y :: t) ltac:(right; left; reflexivity) ltac:(intros t0; discriminate)) as [e5 F5].
    rewrite (alt'_skip _ _ _ _ _ F3), (alt'_skip _ _ _ _ _ F4), (alt'_skip _ _ _ _ _ F5).
    change (33%N :: opener y :: t) with (b "!" ++ opener y :: t).
    destruct Hy as [-> | ->]; cbn [opener] in *.
    + apply alt'_first. rewrite (preceded_ok _ _ _ _ _ (tag_ok (b "!") _)). exact HP.
    + assert (F6 : exists e, preceded (tag (b "!")) (fun j => expr_gram (S (S n')) NParens j) (b "!" ++ 91%N :: t) = Err e).
      { rewrite (preceded_ok _ _ _ _ _ (tag_ok (b "!") _)).
        apply (group_wrong_head (S n') NParens (91%N :: t)); [left; reflexivity|intros t0; discriminate]. }
      destruct F6 as [e6 F6]. rewrite (alt'_skip _ _ _ _ _ F6). apply alt'_first.
      rewrite (preceded_ok _ _ _ _ _ (tag_ok (b "!") _)). exact HP.
Qed.

(* ---- where the chain stops: no postfix form starts at r ---- *)
Definition nostart (t : bytes) : Prop :=
  match t with
  | [] => True
  | c :: _ => is_alpha c = false /\ is_digit c = false /\ c <> 95%N /\ c <> 34%N /\ c <> 40%N /\ c <> 91%N /\ c <> 38%N /\ c <> 42%N
  end.
Lemma neq_eqb a c : c <> a -> N.eqb a c = false.
Proof. intros H. destruct (N.eqb a c) eqn:X; [|reflexivity]. apply N.eqb_eq in X. congruence. Qed.

Lemma expr_fails_nostart n t : nostart t -> exists e, expr_gram (S (S n)) NExpr t = Err e.
Proof.
  intros H. rewrite unfold_expr. unfold map_res, recognize, context, pair at 1, bind.
  assert (P : pair prefix_alt (atom_alt (fun y j => expr_gram (S n) y j)) t = Err [] \/ exists e, pair prefix_alt (atom_alt (fun y j => expr_gram (S n) y j)) t = Err e).
  { right. assert (PA : prefix_alt t = Ok [] t).
    { unfold prefix_alt, alt. destruct t as [|c t]; [reflexivity|]. destruct H as [_ [_ [_ [_ [_ [_ [H38 H42]]]]]]].
      cbn [alt']. unfold tag. cbn [b map String.list_ascii_of_string strip_prefix]. change (N_of_ascii "&") with 38%N. change (N_of_ascii "*") with 42%N.
      rewrite (neq_eqb 38 c H38), (neq_eqb 42 c H42). reflexivity. }
    unfold pair, bind. rewrite PA. unfold pmap.
    assert (AF : exists e, atom_alt (fun y j => expr_gram (S n) y j) t = Err e).
    { unfold atom_alt, alt. destruct t as [|c t].
      - cbn. eexists. reflexivity.
      - destruct H as [Ha [Hd [H95 [H34 [H40 [H91 _]]]]]].
        destruct (name_fails_on c t Ha (neq_eqb 95 c H95)) as [e1 F1]. destruct (digits_fail_on c t Hd) as [e2 F2].
        destruct (quoted_wrong_head (c :: t) ltac:(intros t0 E; injection E as E; congruence)) as [e3 F3].
        destruct (group_wrong_head n NParens (c :: t) ltac:(left; reflexivity) ltac:(intros t0 E; injection E as E; cbn in E; congruence)) as [e4 F4].
        destruct (group_wrong_head n NBrackets (c :: t) ltac:(right; left; reflexivity) ltac:(intros t0 E; injection E as E; cbn in E; congruence)) as [e5 F5].
        rewrite (alt'_skip _ _ _ _ _ F1), (alt'_skip _ _ _ _ _ F2), (alt'_skip _ _ _ _ _ F3), (alt'_skip _ _ _ _ _ F4).
        cbn [alt']. rewrite F5. eexists. reflexivity. }
    destruct AF as [e AF]. rewrite AF. eexists. reflexivity. }
  destruct P as [P|[e P]]; rewrite P; eexists; reflexivity.
Qed.

Definition xstop (r : bytes) : Prop :=
  match r with
  | [] => True
  | c :: t => c <> 40%N /\ c <> 123%N /\ c <> 91%N /\ (c = 46%N -> nostart t) /\
              (c = 58%N -> match t with 58%N :: t' => nostart t' | _ => True end) /\
              (c = 33%N -> match t with x :: _ => x <> 40%N /\ x <> 91%N | [] => True end)
  end.

Lemma postfix_stops n r : xstop r -> exists e, postfix_alt (fun y j => expr_gram (S (S n)) y j) r = Err e.
Proof.
  intros H. unfold postfix_alt, alt.
  assert (W : forall y i, is_group y -> (forall t, i <> opener y :: t) -> exists e, expr_gram (S (S n)) y i = Err e)
    by (intros; now apply group_wrong_head).
  (* alternative 1 *)
  assert (F1 : exists e, preceded (context (b "separator") (tag (b "."))) (fun j => expr_gram (S (S n)) NExpr j) r = Err e).
  { unfold preceded, bind, context, tag. cbn [b map String.list_ascii_of_string]. change (N_of_ascii ".") with 46%N.
    destruct r as [|c t]; cbn [strip_prefix]; [eexists; reflexivity|]. destruct (N.eqb 46 c) eqn:X; [|eexists; reflexivity].
    apply N.eqb_eq in X. subst c. destruct H as [_ [_ [_ [H46 _]]]]. exact (expr_fails_nostart n t (H46 eq_refl)). }
  assert (F2 : exists e, preceded (tag (b "::")) (fun j => expr_gram (S (S n)) NExpr j) r = Err e).
  { unfold preceded, bind, tag. cbn [b map String.list_ascii_of_string]. change (N_of_ascii ":") with 58%N.
    destruct r as [|c [|c2 t]]; cbn [strip_prefix]; [eexists; reflexivity| |].
    - destruct (N.eqb 58 c); eexists; reflexivity.
    - destruct (N.eqb 58 c) eqn:X; [|eexists; reflexivity]. destruct (N.eqb 58 c2) eqn:Y; [|eexists; reflexivity].
      apply N.eqb_eq in X, Y. subst c c2. destruct H as [_ [_ [_ [_ [H58 _]]]]]. exact (expr_fails_nostart n t (H58 eq_refl)). }
  assert (HG : forall y, is_group y -> exists e, expr_gram (S (S n)) y r = Err e).
  { intros y Gy. apply W; [exact Gy|]. intros t E. subst r. cbn in H. destruct Gy as [-> | [-> | ->]]; cbn [opener] in H; tauto. }
  assert (F67 : forall y, is_group y -> y <> NBraces -> exists e, preceded (tag (b "!")) (fun j => expr_gram (S (S n)) y j) r = Err e).
  { intros y Gy Ny. unfold preceded, bind, tag. cbn [b map String.list_ascii_of_string]. change (N_of_ascii "!") with 33%N.
    destruct r as [|c t]; cbn [strip_prefix]; [eexists; reflexivity|]. destruct (N.eqb 33 c) eqn:X; [|eexists; reflexivity].
    apply N.eqb_eq in X. subst c. destruct H as [_ [_ [_ [_ [_ H33]]]]]. specialize (H33 eq_refl).
    apply W; [exact Gy|]. intros t0 E. subst t. destruct Gy as [-> | [-> | ->]]; cbn [opener] in H33; tauto. }
  destruct F1 as [e1 F1]. destruct F2 as [e2 F2].
  destruct (HG NParens ltac:(left; reflexivity)) as [e3 F3]. destruct (HG NBraces ltac:(right; right; reflexivity)) as [e4 F4].
  destruct (HG NBrackets ltac:(right; left; reflexivity)) as [e5 F5].
  destruct (F67 NParens ltac:(left; reflexivity) ltac:(discriminate)) as [e6 F6].
  destruct (F67 NBrackets ltac:(right; left; reflexivity) ltac:(discriminate)) as [e7 F7].
  rewrite (alt'_skip _ _ _ _ _ F1), (alt'_skip _ _ _ _ _ F2), (alt'_skip _ _ _ _ _ F3), (alt'_skip _ _ _ _ _ F4),
          (alt'_skip _ _ _ _ _ F5), (alt'_skip _ _ _ _ _ F6).
  cbn [alt']. rewrite F7. eexists. reflexivity.
Qed.

(* what @( .. ) scans: the items up to the closing parenthesis *)
Corollary inside_complete n i r : XIs false (S n) i (41%N :: r) -> utf8_valid (slice i (41%N :: r)) = true ->
  expr_gram (S (S n)) NInside i = Ok (slice i (41%N :: r)) (41%N :: r).
Proof.
  intros H V. destruct (proj1 (proj2 group_complete) _ _ _ _ H n eq_refl) as [k [SA _]].
  rewrite unfold_inside. apply map_res_to_str_ok; [|exact V]. apply recognize_ok with (a := units k).
  destruct (items7_stop n NBraces NBrackets NParens ltac:(right; right; reflexivity) ltac:(right; left; reflexivity) ltac:(left; reflexivity) (set_of false) 41%N r)
    as [e He]; try reflexivity; try discriminate.
  exact (many0_steps _ (g_sfx (good_items7 n _ _ _ _)) _ _ _ _ SA He).
Qed.

(* ---- building derivations for concrete texts (greedy, like the parser) ---- *)
Ltac xlen := cbn [List.length]; lia.
Ltac xvalid := vm_compute; reflexivity.
Ltac xg :=
  lazymatch goal with
  | |- XG _ NParens _ _ => eapply XG_paren; [xis|xvalid|xvalid]
  | |- XG _ NBrackets _ _ => eapply XG_brack; [xis|xvalid]
  | |- XG _ NBraces _ _ => eapply XG_brace; [xis|xvalid]
  end
with xis := first [ eapply XIs_cons; [xi|xlen|xis] | apply XIs_nil ]
with xi :=
  first [ eapply XI_run; lex
        | eapply (XI_group _ _ NParens); [grp|reflexivity|xg]
        | eapply (XI_group _ _ NBrackets); [grp|reflexivity|xg]
        | eapply (XI_group _ _ NBraces); [grp|reflexivity|xg]
        | eapply XI_str; lex
        | eapply XI_cmt; lex
        | apply XI_slash; intros ?t; discriminate ].
Ltac xa :=
  first [ eapply XA_name; lex | eapply XA_num; [lex|lex] | eapply XA_str; lex | apply XA_paren; xg | apply XA_brack; xg ].
Ltac xe := eapply XE_mk; [lex|xa|xps|eexists; lex|xvalid]
with xps := first [ eapply XPs_cons; [xp|xlen|xps] | apply XPs_nil ]
with xp :=
  first [ apply XP_dot; xe | apply XP_path; xe
        | eapply (XP_group _ NParens); [grp|xg] | eapply (XP_group _ NBraces); [grp|xg] | eapply (XP_group _ NBrackets); [grp|xg]
        | eapply (XP_bang _ NParens); [left; reflexivity|xg] | eapply (XP_bang _ NBrackets); [right; reflexivity|xg] ].

(* ---- the lexical pieces, syntactically: block comments and string literals ---- *)
Fixpoint no_close_rc (s : bytes) : bool :=      (* no "*/" inside *)
  match s with
  | [] => true
  | x :: r => if N.eqb x 42 then match r with y :: _ => negb (N.eqb y 47) && no_close_rc r | [] => true end
              else no_close_rc r
  end.
Definition rc_item : parser bytes := alt [ is_not (b "*"); terminated (tag (b "*")) (pnot (tag (b "/"))) ].
Lemma good_rc_item : good rc_item. Proof. unfold rc_item. good_auto. Qed.
Lemma no_close_rc_tail x r : no_close_rc (x :: r) = true -> no_close_rc r = true.
Proof.
  cbn [no_close_rc]. destruct (N.eqb x 42); [|auto]. destruct r as [|y t]; [reflexivity|].
  intros H. apply andb_true_iff in H. tauto.
Qed.
Lemma no_close_rc_suffix a c : no_close_rc (a ++ c) = true -> no_close_rc c = true.
Proof. induction a as [|x a IH]; intros H; [exact H|]. apply IH. eapply no_close_rc_tail. exact H. Qed.
Lemma rc_item_star_slash r : exists e, rc_item (42%N :: 47%N :: r) = Err e.
Proof. unfold rc_item, alt. cbn. eauto. Qed.
Lemma rc_item_star_other c r : N.eqb c 47 = false -> exists a, rc_item (42%N :: c :: r) = Ok a (c :: r).
Proof.
  intros H. unfold rc_item, alt. cbn.
  unfold terminated, bind, pmap, tag, pnot. cbn [strip_prefix].
  rewrite (N.eqb_sym 47 c), H. eexists. reflexivity.
Qed.
Lemma rc_item_nonstar c r : N.eqb c 42 = false -> exists a, rc_item (c :: r) = Ok a (snd (span nonstar (c :: r))).
Proof.
  intros H. unfold rc_item, alt. cbn [alt']. unfold is_not, take_while1.
  fold nonstar. cbn [span]. rewrite nonstar_spec, H. cbn [negb].
  destruct (span nonstar r) as [a t]. eauto.
Qed.
Lemma many0_rc_items : forall n body rest, List.length body <= n -> no_close_rc body = true ->
  exists l, many0 rc_item (body ++ b "*/" ++ rest) = Ok l (b "*/" ++ rest).
Proof.
  induction n as [|n IH]; intros body rest Hn Hc.
  - destruct body; [|cbn in Hn; lia]. rewrite (many0_step _ (g_sfx good_rc_item)).
    destruct (rc_item_star_slash rest) as [e He]. change ([] ++ b "*/" ++ rest) with (42%N :: 47%N :: rest). rewrite He. eauto.
  - destruct body as [|c body].
    + rewrite (many0_step _ (g_sfx good_rc_item)).
      destruct (rc_item_star_slash rest) as [e He]. change ([] ++ b "*/" ++ rest) with (42%N :: 47%N :: rest). rewrite He. eauto.
    + rewrite (many0_step _ (g_sfx good_rc_item)). cbn [app]. destruct (N.eqb c 42) eqn:Ec.
      * apply N.eqb_eq in Ec. subst c.
        assert (Hnext : exists x t, body ++ b "*/" ++ rest = x :: t /\ N.eqb x 47 = false).
        { destruct body as [|y body']; [exists 42%N, (47%N :: rest); split; reflexivity|].
          exists y, (body' ++ b "*/" ++ rest). split; [reflexivity|]. cbn [no_close_rc] in Hc. rewrite N.eqb_refl in Hc.
          apply andb_true_iff in Hc. destruct Hc as [Hc _]. now apply negb_true_iff in Hc. }
        destruct Hnext as [x [t [Ex Hx]]]. rewrite Ex. destruct (rc_item_star_other x t Hx) as [a0 Ha0]. rewrite Ha0.
        assert (X : Nat.eqb (List.length (x :: t)) (List.length (42%N :: x :: t)) = false) by (apply Nat.eqb_neq; cbn; lia).
        rewrite X. rewrite <- Ex.
        destruct (IH body rest ltac:(cbn in Hn; lia) (no_close_rc_tail _ _ Hc)) as [l Hl]. rewrite Hl. eauto.
      * destruct (rc_item_nonstar c (body ++ b "*/" ++ rest) Ec) as [a0 Ha0]. rewrite Ha0.
        change (c :: body ++ b "*/" ++ rest) with ((c :: body) ++ b "*/" ++ rest).
        rewrite (span_app_stop nonstar (c :: body) (b "*/" ++ rest)); [|right; exists 42%N, (47%N :: rest); split; reflexivity].
        cbn [snd].
        destruct (span_snd_suffix nonstar (c :: body)) as [pre [Hpre Hfst]].
        assert (Lpre : pre <> []).
        { rewrite <- Hfst. cbn [span]. rewrite nonstar_spec, Ec. cbn. destruct (span nonstar body). discriminate. }
        set (tl := snd (span nonstar (c :: body))) in *.
        assert (Ltl : List.length tl < List.length (c :: body)).
        { rewrite Hpre. rewrite app_length. destruct pre; [congruence|cbn; lia]. }
        assert (X : Nat.eqb (List.length (tl ++ b "*/" ++ rest)) (List.length ((c :: body) ++ b "*/" ++ rest)) = false).
        { apply Nat.eqb_neq. rewrite !app_length. lia. }
        rewrite X.
        assert (Ctl : no_close_rc tl = true) by (apply (no_close_rc_suffix pre); now rewrite <- Hpre).
        destruct (IH tl rest ltac:(cbn in Hn, Ltl; lia) Ctl) as [l Hl]. rewrite Hl. eauto.
Qed.
(* a block comment whose body has no "*/" -- any delimiters, quotes, stars and slashes in it -- is
   taken exactly up to its terminator, whatever follows *)
Theorem rust_comment_skips body rest : no_close_rc body = true ->
  rust_comment (b "/*" ++ body ++ b "*/" ++ rest) = Ok body rest.
Proof.
  intros H. unfold rust_comment. fold rc_item.
  destruct (many0_rc_items (List.length body) body rest (le_n _) H) as [l Hl].
  eapply delimited_ok; [apply (tag_ok (b "/*"))| |apply (tag_ok (b "*/"))].
  rewrite (recognize_ok _ _ _ _ Hl). unfold slice. rewrite !app_length.
  replace (List.length body + (List.length (b "*/") + List.length rest) - (List.length (b "*/") + List.length rest)) with (List.length body) by lia.
  rewrite firstn_app, firstn_all, Nat.sub_diag. cbn [firstn]. now rewrite app_nil_r.
Qed.

(* a string literal without backslashes: everything up to the next double quote, delimiters and
   comment openers included *)
Lemma slice_app a r : slice (a ++ r) r = a.
Proof.
  unfold slice. rewrite app_length. replace (List.length a + List.length r - List.length r) with (List.length a) by lia.
  rewrite firstn_app, firstn_all, Nat.sub_diag. cbn [firstn]. now rewrite app_nil_r.
Qed.
Definition plain_str (c : N) : bool := negb (mem c [34%N; 92%N]).
Theorem quoted_string_plain body rest : Forall (fun c => plain_str c = true) body -> utf8_valid (34%N :: body ++ [34%N]) = true ->
  quoted_string (34%N :: body ++ 34%N :: rest) = Ok (34%N :: body ++ [34%N]) rest.
Proof.
  intros Hb V. unfold quoted_string. apply map_res_to_str_ok; [|exact V].
  assert (R : delimited (char 34) (opt (escaped (is_not [34%N; 92%N]) 92 (one_of (b "'""\nrt0xu")))) (char 34) (34%N :: body ++ 34%N :: rest) = Ok (match body with [] => None | _ => Some body end) rest).
  { eapply delimited_ok; [apply char_ok| |apply char_ok].
    destruct body as [|c body].
    { cbn [app]. unfold opt, escaped. cbn [List.length escaped_aux]. unfold is_not, take_while1. cbn [span mem negb]. change (N.eqb 34 34) with true. cbn [orb negb].
      change (N.eqb 34 92) with false. cbv iota. rewrite Nat.eqb_refl. reflexivity. }
    apply opt_ok. unfold escaped. cbn [app List.length escaped_aux].
    assert (Sp : span plain_str ((c :: body) ++ 34%N :: rest) = (c :: body, 34%N :: rest)).
    { rewrite (span_app_stop plain_str (c :: body) (34%N :: rest)); [|right; exists 34%N, rest; split; reflexivity].
      assert (S0 : span plain_str (c :: body) = (c :: body, [])).
      { clear -Hb. induction Hb as [|x l Hx Hl IH]; [reflexivity|]. cbn [span]. rewrite Hx, IH. reflexivity. }
      rewrite S0. reflexivity. }
    unfold is_not, take_while1. fold plain_str. change (c :: body ++ 34%N :: rest) with ((c :: body) ++ 34%N :: rest). rewrite Sp.
    assert (X : Nat.eqb (List.length (34%N :: rest)) (S (List.length (body ++ 34%N :: rest))) = false).
    { apply Nat.eqb_neq. rewrite app_length. cbn [List.length]. lia. }
    rewrite X.
    (* second round: the quote is neither ordinary nor the escape character *)
    rewrite app_length. cbn [List.length]. rewrite Nat.add_succ_r. cbn [escaped_aux].
    cbn [span]. assert (P34 : plain_str 34 = false) by reflexivity. rewrite P34. cbn [err1].
    change (N.eqb 34 92) with false. cbv iota.
    assert (Y : Nat.eqb (List.length (34%N :: rest)) (List.length ((c :: body) ++ 34%N :: rest)) = false).
    { apply Nat.eqb_neq. rewrite app_length. cbn [List.length]. lia. }
    rewrite Y. f_equal. rewrite app_length. cbn [List.length].
    replace (S (List.length body) + S (List.length rest) - S (List.length rest)) with (List.length (c :: body)) by (cbn [List.length]; lia).
    rewrite firstn_app, firstn_all, Nat.sub_diag. cbn [firstn]. now rewrite app_nil_r. }
  rewrite (recognize_ok _ _ _ _ R). f_equal.
  replace (34%N :: body ++ 34%N :: rest) with ((34%N :: body ++ [34%N]) ++ rest) by (cbn [app]; now rewrite <- app_assoc).
  apply slice_app.
Qed.

(* ---- names, and chains of members, syntactically ---- *)
Lemma ascii_decode : forall n s, List.length s <= n -> is_ascii s = true -> utf8_decode_aux n s = Some s.
Proof.
  induction n as [|n IH]; intros s L A; destruct s as [|c s]; try reflexivity; cbn [List.length] in L; [lia|].
  unfold is_ascii in A. cbn [forallb] in A. apply andb_true_iff in A. destruct A as [A1 A2].
  cbn [utf8_decode_aux utf8_step]. rewrite A1. rewrite (IH s ltac:(lia) A2). reflexivity.
Qed.
Lemma ascii_valid s : is_ascii s = true -> utf8_valid s = true.
Proof. intros A. unfold utf8_valid, utf8_decode. now rewrite (ascii_decode _ s (le_n _) A). Qed.

Definition ident_char (c : N) : bool := mem c ident_chars.
Definition ident_start (c : N) : bool := is_alpha c || N.eqb c 95.
Lemma ident_char_ascii c : ident_char c = true -> (c <? 128)%N = true.
Proof.
  unfold ident_char, ident_chars. intros H.
  assert (F : forallb (fun x => (x <? 128)%N) (b "_0123456789ABCDEFGHIJKLMNOPQRSTUVWXYZabcdefghijklmnopqrstuvwxyz") = true) by (vm_compute; reflexivity).
  rewrite forallb_forall in F. apply F. clear F.
  induction (b "_0123456789ABCDEFGHIJKLMNOPQRSTUVWXYZabcdefghijklmnopqrstuvwxyz") as [|x l IH]; [discriminate|].
  cbn [mem] in H. apply orb_true_iff in H. destruct H as [H|H]; [apply N.eqb_eq in H; subst; now left|right; now apply IH].
Qed.
Lemma alpha_is_ident c : is_alpha c = true -> ident_char c = true.
Proof.
  intros H. unfold is_alpha in H. unfold ident_char, ident_chars.
  assert (forall x, (65 <=? x)%N && (x <=? 90)%N || (97 <=? x)%N && (x <=? 122)%N = true -> (x < 123)%N) as B.
  { intros x Hx. apply orb_true_iff in Hx. destruct Hx as [Hx|Hx]; apply andb_true_iff in Hx; destruct Hx as [_ Hx]; apply N.leb_le in Hx; lia. }
  pose proof (B c H) as Lt.
  assert (T : forallb (fun x => implb (is_alpha x) (mem x (b "_0123456789ABCDEFGHIJKLMNOPQRSTUVWXYZabcdefghijklmnopqrstuvwxyz"))) (map N.of_nat (seq 0 123)) = true) by (vm_compute; reflexivity).
  rewrite forallb_forall in T. specialize (T c).
  assert (I : In c (map N.of_nat (seq 0 123))).
  { apply in_map_iff. exists (N.to_nat c). split; [apply N2Nat.id|]. apply in_seq. lia. }
  specialize (T I). unfold is_alpha in T. rewrite H in T. exact T.
Qed.

(* a name is a letter or underscore followed by letters, digits and underscores; it ends at the
   first byte that is none of these *)
Definition name_stop (r : bytes) : Prop := r = [] \/ exists x t, r = x :: t /\ ident_char x = false.
Theorem rust_name_ident c cs r : ident_start c = true -> Forall (fun x => ident_char x = true) cs -> name_stop r ->
  rust_name ((c :: cs) ++ r) = Ok (c :: cs) r.
Proof.
  intros Hc Hcs Hr. unfold rust_name.
  assert (A : is_ascii (c :: cs) = true).
  { unfold is_ascii. apply forallb_forall. intros x [<-|Hx].
    - unfold ident_start in Hc. apply orb_true_iff in Hc. destruct Hc as [Hc|Hc]; [now apply ident_char_ascii, alpha_is_ident|apply N.eqb_eq in Hc; now subst].
    - rewrite Forall_forall in Hcs. now apply ident_char_ascii, Hcs. }
  apply map_res_to_str_ok; [|now apply ascii_valid].
  assert (R : exists v, pair (alt [tag (b "_"); alpha1]) (opt (is_a ident_chars)) ((c :: cs) ++ r) = Ok v r).
  {
    (* the run of identifier characters after the first alternative *)
    assert (Tail : forall pre post, (c :: cs) = pre ++ post -> Forall (fun x => ident_char x = true) post ->
              exists o, opt (is_a ident_chars) (post ++ r) = Ok o r).
    { intros pre post _ Hp. unfold opt, is_a, take_while1. fold ident_char.
      rewrite (span_app_stop ident_char post r Hr).
      assert (S0 : span ident_char post = (post, [])).
      { clear -Hp. induction Hp as [|x l Hx Hl IH]; [reflexivity|]. cbn [span]. rewrite Hx, IH. reflexivity. }
      rewrite S0. cbn [fst snd app]. destruct post; eexists; reflexivity. }
    unfold pair, bind, alt. cbn [alt'].
    destruct (N.eqb c 95) eqn:U.
    - apply N.eqb_eq in U. subst c. cbn [app]. unfold tag at 1. cbn [b map String.list_ascii_of_string strip_prefix]. change (N_of_ascii "_") with 95%N.
      rewrite N.eqb_refl. destruct (Tail [95%N] cs eq_refl Hcs) as [o Ho]. unfold pmap. rewrite Ho. eexists. reflexivity.
    - unfold ident_start in Hc. rewrite U, orb_false_r in Hc. cbn [app]. unfold tag at 1. cbn [b map String.list_ascii_of_string strip_prefix]. change (N_of_ascii "_") with 95%N.
      rewrite (N.eqb_sym 95 c), U. unfold alpha1, take_while1.
      destruct (span_snd_suffix is_alpha (c :: cs ++ r)) as [pre [Hpre Hfst]].
      change (c :: cs ++ r) with ((c :: cs) ++ r) in *.
      (* the alpha run is a prefix of the name: split the name there *)
      assert (Sp : exists a1 a2, c :: cs = a1 ++ a2 /\ a1 <> [] /\ span is_alpha ((c :: cs) ++ r) = (a1, a2 ++ r)).
      { clear Hpre Hfst pre Tail A. revert Hr Hcs Hc. generalize r. clear. intros r Hr Hcs Hc.
        assert (G : forall l, Forall (fun x => ident_char x = true) l -> exists a1 a2, l = a1 ++ a2 /\ span is_alpha (l ++ r) = (a1, a2 ++ r)).
        { induction l as [|x l IH]; intros Hl.
          - exists [], []. split; [reflexivity|]. cbn [app]. destruct Hr as [->|[y [t [-> Hy]]]]; [reflexivity|].
            cbn [span]. destruct (is_alpha y) eqn:Ay; [|reflexivity]. rewrite (alpha_is_ident y Ay) in Hy. discriminate.
          - inversion Hl; subst. destruct (IH H2) as [a1 [a2 [E S0]]]. cbn [app span]. destruct (is_alpha x).
            + exists (x :: a1), a2. split; [now rewrite E|]. now rewrite S0.
            + exists [], (x :: l). split; reflexivity. }
        destruct (G cs Hcs) as [a1 [a2 [E S0]]]. exists (c :: a1), a2. split; [now rewrite E|]. split; [discriminate|].
        cbn [app span]. rewrite Hc. now rewrite S0. }
      destruct Sp as [a1 [a2 [E [Ne S0]]]]. rewrite S0. destruct a1 as [|y a1]; [congruence|].
      assert (Ha2 : Forall (fun x => ident_char x = true) a2).
      { assert (Fall : Forall (fun x => ident_char x = true) (c :: cs)).
        { constructor; [now apply alpha_is_ident|exact Hcs]. }
        rewrite E in Fall. apply Forall_app in Fall. tauto. }
      unfold err1. cbv beta iota. destruct (Tail (y :: a1) a2 E Ha2) as [o Ho]. unfold pmap. rewrite Ho. eexists. reflexivity. }
  destruct R as [v R]. rewrite (recognize_ok _ _ _ _ R). f_equal. apply slice_app.
Qed.

Definition is_ident (s : bytes) : Prop := exists c cs, s = c :: cs /\ ident_start c = true /\ Forall (fun x => ident_char x = true) cs.
Fixpoint dotted (segs : list bytes) : bytes :=
  match segs with [] => [] | [s] => s | s :: rest => s ++ 46%N :: dotted rest end.
Lemma ident_ascii s : is_ident s -> is_ascii s = true.
Proof.
  intros [c [cs [-> [Hc Hcs]]]]. unfold is_ascii. apply forallb_forall. intros x [<-|Hx].
  - unfold ident_start in Hc. apply orb_true_iff in Hc. destruct Hc as [Hc|Hc]; [now apply ident_char_ascii, alpha_is_ident|apply N.eqb_eq in Hc; now subst].
  - rewrite Forall_forall in Hcs. now apply ident_char_ascii, Hcs.
Qed.
Lemma dotted_ascii segs : Forall is_ident segs -> is_ascii (dotted segs) = true.
Proof.
  induction 1 as [|s rest Hs Hr IH]; [reflexivity|]. destruct rest as [|s2 rest]; [now apply ident_ascii|].
  cbn [dotted] in *. pose proof (ident_ascii s Hs) as As. unfold is_ascii in *. rewrite forallb_app, As. cbn [forallb andb]. exact IH.
Qed.
Lemma prefix_none c t : ident_start c = true -> prefix_alt (c :: t) = Ok [] (c :: t).
Proof.
  intros H. unfold prefix_alt, alt. cbn [alt']. unfold tag. cbn [b map String.list_ascii_of_string strip_prefix].
  change (N_of_ascii "&") with 38%N. change (N_of_ascii "*") with 42%N.
  assert (N38 : N.eqb 38 c = false /\ N.eqb 42 c = false).
  { unfold ident_start, is_alpha in H. split; destruct (N.eqb_spec 38 c), (N.eqb_spec 42 c); subst; try reflexivity; discriminate. }
  destruct N38 as [-> ->]. reflexivity.
Qed.

(* a chain of members a.b.c taken whole: every segment a name, the follower a byte that neither
   continues the last name nor starts a postfix form *)
Theorem member_chain_complete : forall segs r n, segs <> [] -> Forall is_ident segs -> name_stop r -> xstop r ->
  List.length segs + 2 <= n -> XE n (dotted segs ++ r) r.
Proof.
  induction segs as [|s rest IH]; intros r n Ne Hs Nr Xr Hn; [congruence|].
  inversion Hs as [|? ? Hs1 Hrest]; subst. destruct Hs1 as [c [cs [-> [Hc Hcs]]]].
  destruct n as [|n]; [cbn in Hn; lia|]. destruct n as [|n]; [cbn in Hn; lia|].
  assert (St : exists e, postfix_alt (expr_gram (S n)) r = Err e).
  { destruct n as [|n]; [cbn in Hn; lia|]. exact (postfix_stops n r Xr). }
  assert (V : utf8_valid (slice (dotted ((c :: cs) :: rest) ++ r) r) = true).
  { rewrite slice_app. apply ascii_valid, dotted_ascii. exact Hs. }
  destruct rest as [|s2 rest].
  - cbn [dotted] in *. eapply XE_mk; [apply prefix_none, Hc|eapply XA_name; now apply rust_name_ident|apply XPs_nil|exact St|exact V].
  - match goal with |- XE _ ?i _ => assert (E : i = (c :: cs) ++ 46%N :: (dotted (s2 :: rest) ++ r)) by (cbn [dotted]; now rewrite <- app_assoc) end.
    match type of V with utf8_valid (slice ?i _) = _ => assert (E2 : i = (c :: cs) ++ 46%N :: (dotted (s2 :: rest) ++ r)) by (cbn [dotted]; now rewrite <- app_assoc) end.
    rewrite E2 in V. rewrite E. eapply XE_mk; [apply prefix_none, Hc| | |exact St|exact V].
    + eapply XA_name. apply rust_name_ident; [exact Hc|exact Hcs|]. right. exists 46%N, (dotted (s2 :: rest) ++ r). split; reflexivity.
    + eapply XPs_cons; [apply XP_dot; apply (IH r (S n)); [discriminate|exact Hrest|exact Nr|exact Xr|cbn [List.length] in *; lia]| |apply XPs_nil].
      cbn [List.length]. assert (L : List.length r <= List.length (dotted (s2 :: rest) ++ r)) by (rewrite app_length; lia). lia.
Qed.
Corollary member_chain_taken_whole segs r n : segs <> [] -> Forall is_ident segs -> name_stop r -> xstop r -> List.length segs + 2 <= n ->
  expr_gram n NExpr (dotted segs ++ r) = Ok (dotted segs) r.
Proof.
  intros. rewrite (proj1 expr_complete n _ r (member_chain_complete segs r n H H0 H1 H2 H3)). now rewrite slice_app.
Qed.

(* ---- string literals with escapes ---- *)
Definition escapable : bytes := b "'""\nrt0xu".
(* the body of a literal: maximal runs of ordinary bytes and backslash pairs whose second byte is an
   apostrophe, a double quote, a backslash, or one of n r t 0 x u *)
Inductive sbody : bytes -> Prop :=
| sb_nil : sbody []
| sb_run run rest : run <> [] -> Forall (fun c => plain_str c = true) run -> (rest = [] \/ exists t, rest = 92%N :: t) -> sbody rest -> sbody (run ++ rest)
| sb_esc c rest : mem c escapable = true -> sbody rest -> sbody (92%N :: c :: rest).

Lemma span_plain_run run rest : Forall (fun c => plain_str c = true) run -> (rest = [] \/ exists x t, rest = x :: t /\ plain_str x = false) ->
  span plain_str (run ++ rest) = (run, rest).
Proof.
  intros Hr Hs. rewrite (span_app_stop plain_str run rest Hs).
  assert (S0 : span plain_str run = (run, [])).
  { clear -Hr. induction Hr as [|x l Hx Hl IH]; [reflexivity|]. cbn [span]. rewrite Hx, IH. reflexivity. }
  rewrite S0. reflexivity.
Qed.

Lemma escaped_body : forall body, sbody body -> forall n pre r, List.length (body ++ 34%N :: r) <= n -> (pre <> [] \/ body <> []) ->
  escaped_aux (is_not [34%N; 92%N]) 92 (one_of escapable) n (pre ++ body ++ 34%N :: r) (body ++ 34%N :: r) = Ok (pre ++ body) (34%N :: r).
Proof.
  assert (Stop : forall n pre r, pre <> [] ->
            escaped_aux (is_not [34%N; 92%N]) 92 (one_of escapable) (S n) (pre ++ 34%N :: r) (34%N :: r) = Ok pre (34%N :: r)).
  { intros n pre r Hp. cbn [escaped_aux]. unfold is_not, take_while1. fold plain_str. cbn [span]. assert (P34 : plain_str 34 = false) by reflexivity. rewrite P34.
    cbn [err1]. change (N.eqb 34 92) with false. cbv iota.
    assert (X : Nat.eqb (List.length (34%N :: r)) (List.length (pre ++ 34%N :: r)) = false).
    { apply Nat.eqb_neq. rewrite app_length. destruct pre; [congruence|cbn [List.length]; lia]. }
    rewrite X. f_equal. rewrite app_length.
    replace (List.length pre + List.length (34%N :: r) - List.length (34%N :: r)) with (List.length pre) by lia.
    rewrite firstn_app, firstn_all, Nat.sub_diag. cbn [firstn]. now rewrite app_nil_r. }
  induction 1 as [|run rest Hne Hrun Hrest _ IH|c rest Hc _ IH]; intros n pre r Ln Hp.
  - cbn [app] in *. destruct n as [|n]; [cbn [List.length] in Ln; lia|]. rewrite app_nil_r. apply Stop. destruct Hp as [Hp|Hp]; congruence.
  - destruct n as [|n]; [rewrite !app_length in Ln; destruct run; [congruence|cbn [List.length] in Ln; lia]|].
    destruct run as [|x run]; [congruence|]. rewrite <- !app_assoc. cbn [app].
    assert (N1 : is_not [34%N; 92%N] (x :: run ++ rest ++ 34%N :: r) = Ok (x :: run) (rest ++ 34%N :: r)).
    { unfold is_not, take_while1. fold plain_str. change (x :: run ++ rest ++ 34%N :: r) with ((x :: run) ++ rest ++ 34%N :: r).
      rewrite span_plain_run; [reflexivity|exact Hrun|]. right. destruct Hrest as [->|[t ->]]; [exists 34%N, r|exists 92%N, (t ++ 34%N :: r)]; split; reflexivity. }
    cbn [escaped_aux]. rewrite N1.
    assert (Nz : exists y t, rest ++ 34%N :: r = y :: t) by (destruct rest; eexists; eexists; reflexivity).
    destruct Nz as [y [t Ey]]. rewrite Ey.
    assert (X : Nat.eqb (List.length (y :: t)) (List.length (x :: run ++ y :: t)) = false).
    { apply Nat.eqb_neq. cbn [List.length]. rewrite app_length. cbn [List.length]. lia. }
    rewrite X. rewrite <- Ey.
    replace (pre ++ x :: run ++ rest ++ 34%N :: r) with ((pre ++ x :: run) ++ rest ++ 34%N :: r) by (rewrite <- app_assoc; reflexivity).
    rewrite (IH n (pre ++ x :: run) r); [now rewrite <- !app_assoc| |left; destruct pre; discriminate].
    cbn [List.length] in Ln. rewrite !app_length in *. cbn [List.length] in *. lia.
  - destruct n as [|n]; [cbn [List.length app] in Ln; lia|]. cbn [app].
    assert (N1 : exists e, is_not [34%N; 92%N] (92%N :: c :: rest ++ 34%N :: r) = Err e) by (eexists; reflexivity).
    destruct N1 as [e N1]. cbn [escaped_aux]. rewrite N1. rewrite N.eqb_refl.
    assert (O1 : one_of escapable (c :: rest ++ 34%N :: r) = Ok c (rest ++ 34%N :: r)) by (unfold one_of; now rewrite Hc).
    rewrite O1.
    assert (Nz : exists y t, rest ++ 34%N :: r = y :: t) by (destruct rest; eexists; eexists; reflexivity).
    destruct Nz as [y [t Ey]]. rewrite Ey. rewrite <- Ey.
    destruct n as [|n]; [cbn [List.length app] in Ln; rewrite app_length in Ln; cbn [List.length] in Ln; lia|].
    replace (pre ++ 92%N :: c :: rest ++ 34%N :: r) with ((pre ++ [92%N; c]) ++ rest ++ 34%N :: r) by (rewrite <- app_assoc; reflexivity).
    rewrite (IH (S n) (pre ++ [92%N; c]) r); [rewrite <- app_assoc; reflexivity| |left; destruct pre; discriminate].
    cbn [List.length app] in Ln. lia.
Qed.

Theorem quoted_string_escapes body rest : sbody body -> utf8_valid (34%N :: body ++ [34%N]) = true ->
  quoted_string (34%N :: body ++ 34%N :: rest) = Ok (34%N :: body ++ [34%N]) rest.
Proof.
  intros Hb V. unfold quoted_string. apply map_res_to_str_ok; [|exact V].
  assert (R : exists o, delimited (char 34) (opt (escaped (is_not [34%N; 92%N]) 92 (one_of (b "'""\nrt0xu")))) (char 34) (34%N :: body ++ 34%N :: rest) = Ok o rest).
  { destruct body as [|c body].
    - exists None. eapply delimited_ok; [apply char_ok| |apply char_ok].
      cbn [app]. unfold opt, escaped. cbn [List.length escaped_aux]. unfold is_not, take_while1. cbn [span mem negb]. change (N.eqb 34 34) with true. cbn [orb negb].
      change (N.eqb 34 92) with false. cbv iota. rewrite Nat.eqb_refl. reflexivity.
    - exists (Some (c :: body)). eapply delimited_ok; [apply char_ok| |apply char_ok].
      apply opt_ok. unfold escaped. fold escapable.
      pose proof (escaped_body (c :: body) Hb (List.length ((c :: body) ++ 34%N :: rest)) [] rest (le_n _) ltac:(right; discriminate)) as Eb.
      cbn [app] in Eb. exact Eb. }
  destruct R as [o R]. rewrite (recognize_ok _ _ _ _ R). f_equal.
  replace (34%N :: body ++ 34%N :: rest) with ((34%N :: body ++ [34%N]) ++ rest) by (cbn [app]; now rewrite <- app_assoc).
  apply slice_app.
Qed.
