(* C17, whole scripts: the result of a build-script program is a function of what its calls look at.
   Two input trees on which every call of the program finds the same view -- for compile_templates
   the erasure of the directory it is pointed at (entry names and kinds in order, content of
   template files, recursively below UTF-8 named directories), for add_files the erasure of that
   one directory, for add_files_as the shape below it, for add_file the content, for add_file_as
   the existence of the file -- give the same plan, stdout, reads and result, whatever else differs
   (files elsewhere in the trees, content of files that are not read, anything below skipped
   directories, even the depth of the trees, which the model uses as fuel). *)
From Coq Require Import Lia.
From Ructe Require Import Nom Utf8 Emit Compile Md5 Static Tables Build MapProofs BuildProofs NonInterference.
Local Open Scope string_scope.
Local Open Scope list_scope.

Fixpoint dmax (es : list (bytes * node)) : nat :=
  match es with [] => 0 | (_, x) :: r => Nat.max (depth x) (dmax r) end.
Lemma depth_dir es : depth (Dir es) = S (dmax es).
Proof. reflexivity. Qed.
Lemma depth_pos t : 1 <= depth t.
Proof. destruct t; [cbn; lia|rewrite depth_dir; lia]. Qed.
Lemma dmax_in n x es : In (n, x) es -> depth x <= dmax es.
Proof. induction es as [|[m y] r IH]; intros I; [destruct I|]. cbn [dmax]. destruct I as [[= -> ->]|I]; [lia|specialize (IH I); lia]. Qed.
Lemma find_entry_in c es y : find_entry c es = Some y -> exists n, In (n, y) es.
Proof.
  induction es as [|[n x] r IH]; cbn [find_entry]; [discriminate|]. destruct (beqb n c).
  - intros [= ->]. exists n. now left.
  - intros H. destruct (IH H) as [m I]. exists m. now right.
Qed.
Lemma find_node_depth comps : forall t x, find_node t comps = Some x -> depth x <= depth t.
Proof.
  induction comps as [|c r IH]; intros t x; cbn [find_node]; [intros [= ->]; lia|].
  destruct t as [content|es]; [discriminate|]. destruct (find_entry c es) as [y|] eqn:E; [|discriminate].
  intros H. specialize (IH _ _ H). destruct (find_entry_in _ _ _ E) as [n I]. pose proof (dmax_in _ _ _ I). rewrite depth_dir. lia.
Qed.

Section ScriptNI.
  Variable uni_esc uni_alnum : N -> bool.
  Variable compile : bytes -> bytes -> coutcome.
  Variable utils_src statics_header : bytes.
  Variable mm : mime_mode.
  Notation HE := (handle_entries uni_esc compile).
  Notation AFA := (add_files_as uni_esc uni_alnum mm).

  (* ---- fuel: the depth of the directory walked is enough, more changes nothing ---- *)
  Lemma entries_loop_ext rec1 rec2 : forall es w f indir outdir,
    (forall n sub, In (n, Dir sub) es -> forall w f i o, rec1 w f i o sub = rec2 w f i o sub) ->
    entries_loop uni_esc compile rec1 w f indir outdir es = entries_loop uni_esc compile rec2 w f indir outdir es.
  Proof.
    induction es as [|[n [c|sub]] rest IH]; intros w f indir outdir H; [reflexivity| |]; cbn [entries_loop].
    - destruct (utf8_valid n); [|apply IH; intros; eapply H; right; eassumption].
      destruct (suffix_loop uni_esc compile w f indir outdir n c template_suffixes) as [[w' f']| |]; try reflexivity.
      apply IH. intros; eapply H; right; eassumption.
    - destruct (utf8_valid n); [|apply IH; intros; eapply H; right; eassumption].
      rewrite (H n sub (or_introl eq_refl)).
      destruct (rec2 _ _ _ _ sub) as [[w2 modrs]| |]; try reflexivity.
      apply IH. intros; eapply H; right; eassumption.
  Qed.
  Lemma he_fuel : forall n m es w f indir outdir, S (dmax es) <= n -> S (dmax es) <= m ->
    HE n w f indir outdir es = HE m w f indir outdir es.
  Proof.
    induction n as [|n IH]; intros m es w f indir outdir Hn Hm; [lia|]. destruct m as [|m]; [lia|].
    cbn [handle_entries]. apply entries_loop_ext. intros x sub I w0 f0 i0 o0.
    pose proof (dmax_in _ _ _ I) as D. rewrite depth_dir in D. apply IH; lia.
  Qed.

  Lemma fold_left_ext {X} (g1 g2 : sstate -> X -> sstate) (l : list X) :
    (forall s x, In x l -> g1 s x = g2 s x) -> forall s, fold_left g1 l s = fold_left g2 l s.
  Proof.
    induction l as [|x l IH]; intros H s; [reflexivity|]. cbn [fold_left]. rewrite (H s x (or_introl eq_refl)).
    apply IH. intros s0 y I. apply H. now right.
  Qed.
  Lemma afa_fuel : forall n m es s dir to, S (dmax es) <= n -> S (dmax es) <= m -> AFA n s dir to es = AFA m s dir to es.
  Proof.
    induction n as [|n IH]; intros m es s dir to Hn Hm; [lia|]. destruct m as [|m]; [lia|].
    cbn [add_files_as]. apply fold_left_ext. intros s0 [name [c|sub]] I; [reflexivity|].
    pose proof (dmax_in _ _ _ I) as D. rewrite depth_dir in D. apply IH; lia.
  Qed.

  (* ---- what a call looks at ---- *)
  Definition lookup (tree : node) (rel : bytes) : option node := find_node tree (split_path rel []).
  Definition same_kind (a c : option node) : Prop :=
    match a, c with
    | Some (File _), Some (File _) => True
    | Some (Dir _), Some (Dir _) => True
    | None, None => True
    | _, _ => False
    end.
  (* the two trees show a static-files call the same thing *)
  Definition agree_scall (t1 t2 : node) (base : bytes) (c : scall) : Prop :=
    match c with
    | SAddFile rel => match lookup t1 rel, lookup t2 rel with
                      | Some (File c1), Some (File c2) => c1 = c2
                      | Some (File _), _ | _, Some (File _) => False
                      | _, _ => True end
    | SAddFiles rel => match lookup t1 rel, lookup t2 rel with
                       | Some (Dir e1), Some (Dir e2) => erase_files (path_for base rel) e1 = erase_files (path_for base rel) e2
                       | Some (Dir _), _ | _, Some (Dir _) => False
                       | _, _ => True end
    | SAddFileAs rel _ => match lookup t1 rel, lookup t2 rel with
                          | Some (File _), Some (File _) => True
                          | Some (File _), _ | _, Some (File _) => False
                          | _, _ => True end
    | SAddFilesAs rel _ => match lookup t1 rel, lookup t2 rel with
                           | Some (Dir e1), Some (Dir e2) => shape_es e1 = shape_es e2
                           | Some (Dir _), _ | _, Some (Dir _) => False
                           | _, _ => True end
    | SAddData _ _ | SSassRef _ _ | SSassCss _ _ => True
    end.
  Definition agree_call (t1 t2 : node) (base : bytes) (c : call) : Prop :=
    match c with
    | PCompile rel => match lookup t1 rel, lookup t2 rel with
                      | Some (Dir e1), Some (Dir e2) => erase_es e1 = erase_es e2
                      | Some (Dir _), _ | _, Some (Dir _) => False
                      | _, _ => True end
    | PStatics scs => Forall (agree_scall t1 t2 base) scs
    end.

  Lemma do_scall_agree t1 t2 base s c : agree_scall t1 t2 base c ->
    do_scall uni_esc uni_alnum mm t1 base s c = do_scall uni_esc uni_alnum mm t2 base s c.
  Proof.
    destruct c as [rel|rel|rel url|rel to|path data|rel ref|rel css]; cbn [agree_scall do_scall]; unfold lookup; try reflexivity.
    - destruct (find_node t1 (split_path rel [])) as [[c1|e1]|], (find_node t2 (split_path rel [])) as [[c2|e2]|]; intros H; try reflexivity; try contradiction. now subst.
    - destruct (find_node t1 (split_path rel [])) as [[c1|e1]|], (find_node t2 (split_path rel [])) as [[c2|e2]|]; intros H; try reflexivity; try contradiction.
      rewrite (add_files_erase uni_esc uni_alnum mm s _ e1), (add_files_erase uni_esc uni_alnum mm s _ e2). now rewrite H.
    - destruct (find_node t1 (split_path rel [])) as [[c1|e1]|], (find_node t2 (split_path rel [])) as [[c2|e2]|]; intros H; try reflexivity; try contradiction.
    - destruct (find_node t1 (split_path rel [])) as [[c1|e1]|] eqn:F1, (find_node t2 (split_path rel [])) as [[c2|e2]|] eqn:F2; intros H; try reflexivity; try contradiction.
      f_equal. pose proof (find_node_depth _ _ _ F1) as D1. pose proof (find_node_depth _ _ _ F2) as D2. rewrite depth_dir in D1, D2.
      set (N := Nat.max (depth t1) (depth t2)).
      rewrite (afa_fuel (depth t1) N e1) by lia. rewrite (afa_fuel (depth t2) N e2) by lia.
      rewrite (add_files_as_shape uni_esc uni_alnum mm N s _ _ e1), (add_files_as_shape uni_esc uni_alnum mm N s _ _ e2). now rewrite H.
  Qed.

  Theorem run_calls_agree t1 t2 base cs : Forall (agree_call t1 t2 base) cs -> forall w f,
    run_calls uni_esc uni_alnum compile statics_header mm t1 base w f cs =
    run_calls uni_esc uni_alnum compile statics_header mm t2 base w f cs.
  Proof.
    induction cs as [|c cs IH]; intros A w f; [reflexivity|]. inversion A as [|c0 cs0 Ac Acs]; subst.
    specialize (IH Acs). destruct c as [rel|scs]; cbn [run_calls].
    - cbn [agree_call] in Ac. unfold lookup in Ac.
      destruct (find_node t1 (split_path rel [])) as [[c1|e1]|] eqn:F1, (find_node t2 (split_path rel [])) as [[c2|e2]|] eqn:F2; try reflexivity; try contradiction.
      pose proof (find_node_depth _ _ _ F1) as D1. pose proof (find_node_depth _ _ _ F2) as D2. rewrite depth_dir in D1, D2.
      set (N := Nat.max (depth t1) (depth t2)).
      rewrite (he_fuel (depth t1) N e1) by lia. rewrite (he_fuel (depth t2) N e2) by lia.
      rewrite (handle_entries_erase uni_esc compile N _ _ _ _ e1), (handle_entries_erase uni_esc compile N _ _ _ _ e2). rewrite Ac.
      destruct (HE N _ f _ _ (erase_es e2)) as [[w' f']|w'|w']; try reflexivity. apply IH.
    - cbn [agree_call] in Ac.
      assert (G : forall l, Forall (agree_scall t1 t2 base) l -> forall s,
                (fix go (s : sstate) (l : list scall) {struct l} : sstate * bool :=
                   match l with
                   | [] => (s, true)
                   | c :: r => match do_scall uni_esc uni_alnum mm t1 base s c with Some s' => go s' r | None => (s, false) end
                   end) s l =
                (fix go (s : sstate) (l : list scall) {struct l} : sstate * bool :=
                   match l with
                   | [] => (s, true)
                   | c :: r => match do_scall uni_esc uni_alnum mm t2 base s c with Some s' => go s' r | None => (s, false) end
                   end) s l).
      { induction l as [|c0 l IHl]; intros Al s; [reflexivity|]. inversion Al as [|c1 l1 Ac0 Al0]; subst.
        rewrite (do_scall_agree t1 t2 base s c0 Ac0). destruct (do_scall uni_esc uni_alnum mm t2 base s c0) as [s'|]; [|reflexivity]. now apply IHl. }
      rewrite (G scs Ac). 
      match goal with |- (let '(s, ok) := ?X in _) = _ => destruct X as [s ok] end.
      destruct ok; [apply IH|reflexivity].
  Qed.

  Theorem script_noninterference t1 t2 base cs : Forall (agree_call t1 t2 base) cs ->
    run_script uni_esc uni_alnum compile utils_src statics_header mm t1 base cs =
    run_script uni_esc uni_alnum compile utils_src statics_header mm t2 base cs.
  Proof.
    intros A. unfold run_script. cbv zeta. destruct (ructe_new utils_src {| plan := []; out := []; reads := [] |}) as [w1 f].
    now rewrite (run_calls_agree t1 t2 base cs A).
  Qed.
End ScriptNI.
