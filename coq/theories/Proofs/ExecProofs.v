(* C14 (and the run-time side of C03/C04): whatever the sink does, what it accepted is a prefix of
   the full rendering; all of it iff the function returns Ok; sinks that only accept partially or
   report Interrupted do not change the output. *)
From Coq Require Import Lia.
From Ructe Require Import Nom TemplateExpr Tables Io IoProofs EscapeProofs TableChecks Exec.
Local Open Scope list_scope.

(* an action on the sink that writes a prefix of F, all of it when it succeeds *)
Definition Pre (a : sink -> sink * outcome) (F : option bytes) : Prop :=
  forall s s' r, a s = (s', r) -> exists p, log s' = log s ++ p /\
    match F with Some f => prefix p f /\ (r = Done -> p = f) | None => True end.

Lemma Pre_seq a k Fa Fk : Pre a Fa -> Pre k Fk -> Pre (seq a k) (oseq Fa Fk).
Proof.
  intros Ha Hk s s' r H. unfold seq in H. destruct (a s) as [s1 r1] eqn:Ea.
  destruct (Ha _ _ _ Ea) as [pa [La Ca]].
  destruct r1.
  - destruct (Hk _ _ _ H) as [pk [Lk Ck]]. exists (pa ++ pk). rewrite Lk, La, <- app_assoc. split; [reflexivity|].
    destruct Fa as [fa|], Fk as [fk|]; cbn [oseq]; try exact I.
    destruct Ca as [Pa Da]. destruct Ck as [Pk Dk]. rewrite (Da eq_refl). split; [now apply prefix_app|].
    intros R. now rewrite (Dk R).
  - inversion H; subst. exists pa. split; [exact La|]. destruct Fa as [fa|], Fk as [fk|]; cbn [oseq]; try exact I.
    destruct Ca as [Pa _]. split; [now apply prefix_app_r|discriminate].
  - inversion H; subst. exists pa. split; [exact La|]. destruct Fa as [fa|], Fk as [fk|]; cbn [oseq]; try exact I.
    destruct Ca as [Pa _]. split; [now apply prefix_app_r|discriminate].
Qed.
Lemma Pre_done : Pre (fun s => (s, Done)) (Some []).
Proof. intros s s' r [= <- <-]. exists []. rewrite app_nil_r. split; [reflexivity|]. split; [apply prefix_nil|reflexivity]. Qed.
Lemma Pre_none a : (forall s s' r, a s = (s', r) -> exists p, log s' = log s ++ p) -> Pre a None.
Proof. intros H s s' r E. destruct (H _ _ _ E) as [p L]. exists p. split; [exact L|exact I]. Qed.
Lemma Pre_weaken a F : Pre a F -> Pre a None.
Proof. intros H s s' r E. destruct (H _ _ _ E) as [p [L _]]. exists p. split; [exact L|exact I]. Qed.

Lemma Pre_text t : Pre (fun s => write_all sink_write (S (length (sched s) + length t)) s t) (Some t).
Proof.
  intros s s' r H.
  destruct (write_all_spec sink_write log (fun x => x) eq_refl (fun a c => eq_refl) sink_write_spec _ _ _ _ _ H) as [p [L [P D]]].
  exists p. split; [exact L|]. split; assumption.
Qed.
Lemma Pre_value v : Pre (to_html v) (Some (rendering v)).
Proof.
  intros s s' r H. destruct (to_html_prefix_all _ _ _ _ H) as [p [L [P D]]]. exists p. split; [exact L|]. split; assumption.
Qed.

Section P.
  Variable env : Type.
  Variable o : oracle env.

  Lemma exec_Pre : forall fuel e cs items, Pre (exec env o fuel e cs items) (render env o fuel e cs items).
  Proof.
    induction fuel as [|fuel IH]; intros e cs items.
    - cbn [exec render]. apply Pre_none. intros s s' r [= <- <-]. exists []. now rewrite app_nil_r.
    - cbn [exec render]. destruct items as [|it rest]; [apply Pre_done|].
      apply Pre_seq; [|apply IH].
      destruct it as [|t|x|name x body|c body els|x arms|name args].
      + apply Pre_done.
      + apply Pre_text.
      + apply Pre_value.
      + induction (o_for env o e name x) as [|e1 es IHes]; [apply Pre_done|]. apply Pre_seq; [apply IH|exact IHes].
      + destruct (o_if env o e c) as [e'|]; [apply IH|]. destruct els as [b2|]; [apply IH|apply Pre_done].
      + destruct (o_match env o e x (map fst arms)) as [[k e']|]; [apply IH|apply Pre_done].
      + destruct (lookup_clo env name cs) as [[body e' cs']|]; [apply IH|].
        destruct (o_call env o e name (rust_args args)) as [[[body e'] names]|]; [apply IH|apply Pre_done].
  Qed.
End P.

(* ---- fault-free schedules: partial accepts and Interrupted do not change the outcome ---- *)
Definition NF (a : sink -> sink * outcome) : Prop :=
  forall s s' r, a s = (s', r) -> no_fault (sched s) -> (r = Done \/ r = OutOfFuel) /\ no_fault (sched s').

Lemma NF_seq a k : NF a -> NF k -> NF (seq a k).
Proof.
  intros Ha Hk s s' r H F. unfold seq in H. destruct (a s) as [s1 r1] eqn:Ea. destruct (Ha _ _ _ Ea F) as [R1 F1].
  destruct r1; [now apply (Hk _ _ _ H)| |]; inversion H; subst; tauto.
Qed.
Lemma NF_done : NF (fun s => (s, Done)).
Proof. intros s s' r [= <- <-] F. tauto. Qed.
Lemma NF_text t : NF (fun s => write_all sink_write (S (length (sched s) + length t)) s t).
Proof.
  intros s s' r H F.
  destruct (write_all_progress sink_write sched sink_write_prog sink_write_le _ _ _ _ _ H ltac:(lia)) as [_ [_ C]].
  destruct (C F). tauto.
Qed.

Lemma write_pieces_nf ps : forall fuel s s' r,
  write_pieces sink_write fuel s ps = (s', r) -> length (sched s) + length (concat ps) < fuel ->
  no_fault (sched s) -> r = Done /\ no_fault (sched s').
Proof.
  induction ps as [|x ps IH]; intros fuel s s' r H Hf F; cbn in H.
  - inversion H; subst. tauto.
  - cbn [concat] in Hf. rewrite app_length in Hf.
    destruct (write_all sink_write fuel s x) as [s1 r1] eqn:E.
    destruct (write_all_progress sink_write sched sink_write_prog sink_write_le _ _ _ _ _ E ltac:(lia)) as [A [B C]].
    destruct (C F) as [-> F1]. apply (IH _ _ _ _ H); [lia|exact F1].
Qed.
Lemma write_pieces_esc_nf F0 ps : forall fuel s s' r,
  write_pieces (esc_write F0) fuel s ps = (s', r) ->
  length (sched s) + max_entity_len < F0 -> length (sched s) + length (concat ps) < fuel ->
  no_fault (sched s) -> r = Done /\ no_fault (sched s').
Proof.
  induction ps as [|x ps IH]; intros fuel s s' r H HF Hf F; cbn in H.
  - inversion H; subst. tauto.
  - cbn [concat] in Hf. rewrite app_length in Hf.
    destruct (write_all (esc_write F0) fuel s x) as [s1 r1] eqn:E.
    destruct (write_all_esc_progress entities_nonempty_ok _ _ _ _ _ _ E HF ltac:(lia)) as [A [B C]].
    destruct (C F) as [-> F1]. apply (IH _ _ _ _ H); [lia|lia|exact F1].
Qed.
Lemma NF_value v : NF (to_html v).
Proof.
  intros s s' r H F. destruct v as [ps|ps|buf]; cbn [to_html] in H.
  - unfold to_html_display, fuel_of, ent_fuel in H.
    destruct (write_pieces_esc_nf _ _ _ _ _ _ H ltac:(lia) ltac:(lia) F). tauto.
  - unfold to_html_raw, fuel_of in H. destruct (write_pieces_nf _ _ _ _ _ H ltac:(lia) F). tauto.
  - unfold to_html_buffer in H.
    destruct (write_all_progress sink_write sched sink_write_prog sink_write_le _ _ _ _ _ H ltac:(lia)) as [_ [_ C]].
    destruct (C F). tauto.
Qed.

Section Q.
  Variable env : Type.
  Variable o : oracle env.
  Lemma exec_NF : forall fuel e cs items, NF (exec env o fuel e cs items).
  Proof.
    induction fuel as [|fuel IH]; intros e cs items.
    - cbn [exec]. intros s s' r [= <- <-] F. tauto.
    - cbn [exec]. destruct items as [|it rest]; [apply NF_done|].
      apply NF_seq; [|apply IH].
      destruct it as [|t|x|name x body|c body els|x arms|name args].
      + apply NF_done.
      + apply NF_text.
      + apply NF_value.
      + induction (o_for env o e name x) as [|e1 es IHes]; [apply NF_done|]. apply NF_seq; [apply IH|exact IHes].
      + destruct (o_if env o e c) as [e'|]; [apply IH|]. destruct els as [b2|]; [apply IH|apply NF_done].
      + destruct (o_match env o e x (map fst arms)) as [[k e']|]; [apply IH|apply NF_done].
      + destruct (lookup_clo env name cs) as [[body e' cs']|]; [apply IH|].
        destruct (o_call env o e name (rust_args args)) as [[[body e'] names]|]; [apply IH|apply NF_done].
  Qed.
End Q.

(* the error a write_all returns is the sink's own *)
Lemma write_all_error_from_sink : forall fuel s d s' e,
  write_all sink_write fuel s d = (s', Failed e) ->
  (e = WriteZero /\ In (Accept 0) (sched s)) \/ (exists c, e = Io c /\ In (Fail c) (sched s)).
Proof.
  induction fuel as [|f IH]; intros s d s' e H; destruct d as [|c d]; cbn [write_all] in H; try discriminate.
  destruct (sink_write s (c :: d)) as [w1 r1] eqn:Ew. unfold sink_write in Ew.
  destruct (sched s) as [|[k| |c0] rest] eqn:Es.
  - inversion Ew; subst w1 r1. clear Ew. cbn [length] in H. rewrite skipn_all2 in H by (cbn; lia).
    destruct f; cbn in H; discriminate.
  - inversion Ew; subst w1 r1. clear Ew. match type of H with match ?X with _ => _ end = _ => destruct X as [|n] eqn:Em end.
    + inversion H; subst. left. split; [reflexivity|]. destruct k; [now left|cbn in Em; discriminate].
    + apply IH in H. cbn [sched] in H. destruct H as [[-> I]|[c1 [-> I]]]; [left; split; [reflexivity|now right]|right; exists c1; split; [reflexivity|now right]].
  - inversion Ew; subst w1 r1. clear Ew. apply IH in H. cbn [sched] in H.
    destruct H as [[-> I]|[c1 [-> I]]]; [left; split; [reflexivity|now right]|right; exists c1; split; [reflexivity|now right]].
  - inversion Ew; subst w1 r1. clear Ew. inversion H; subst. right. exists c0. split; [reflexivity|now left].
Qed.

(* more fuel never changes a rendering that was already computed *)
Lemma oseq_some a k x : oseq a k = Some x -> exists u v, a = Some u /\ k = Some v /\ x = u ++ v.
Proof. destruct a as [u|], k as [v|]; cbn; try discriminate. intros [= <-]. eauto. Qed.

Section M.
  Variable env : Type.
  Variable o : oracle env.
  Lemma render_mono : forall fuel e cs items out,
    render env o fuel e cs items = Some out -> render env o (S fuel) e cs items = Some out.
  Proof.
    induction fuel as [|fuel IH]; intros e cs items out H; [discriminate|].
    destruct items as [|it rest]; [exact H|].
    cbn [render] in H. apply oseq_some in H. destruct H as [u [v [Hu [Hv ->]]]].
    change (render env o (S (S fuel)) e cs (it :: rest)) with
      (oseq (match render env o (S (S fuel)) e cs [it] with Some x => Some x | None => None end) (render env o (S fuel) e cs rest)) || idtac.
    pose proof (IH _ _ _ _ Hv) as Hv'.
    assert (G : forall A, A = Some u -> oseq A (render env o (S fuel) e cs rest) = Some (u ++ v)) by (intros A ->; now rewrite Hv').
    destruct it as [|t|x|name x body|c body els|x arms|name args].
    - apply (G (Some [])). exact Hu.
    - apply (G (Some t)). exact Hu.
    - apply (G (Some (rendering (o_val env o e x)))). exact Hu.
    - apply G. clear G Hv Hv'.
      assert (A : (fix loop (es : list env) : option bytes :=
                   match es with [] => Some [] | e1 :: es' => oseq (render env o (S fuel) e1 cs body) (loop es') end) (o_for env o e name x) = Some u).
      { revert u Hu. induction (o_for env o e name x) as [|e1 es IHes]; intros u Hu; [exact Hu|].
        apply oseq_some in Hu. destruct Hu as [u1 [u2 [H1 [H2 ->]]]]. rewrite (IH _ _ _ _ H1), (IHes _ H2). reflexivity. }
      exact A.
    - apply G. destruct (o_if env o e c) as [e'|]; [now apply IH|]. destruct els as [b2|]; [now apply IH|exact Hu].
    - apply G. destruct (o_match env o e x (map fst arms)) as [[k e']|]; [now apply IH|exact Hu].
    - apply G. destruct (lookup_clo env name cs) as [[body e' cs']|]; [now apply IH|].
      destruct (o_call env o e name (rust_args args)) as [[[body e'] names]|]; [now apply IH|exact Hu].
  Qed.
End M.
