"""Shared machinery of /verif/bin/check: building (Coq, extraction, OCaml driver, Rust harness),
the proof step, sharded correspondence runs, evidence and violation reporting."""
import os, sys, subprocess, json, time, re, fcntl, hashlib, random, shutil, glob, tempfile

ROOT = os.path.dirname(os.path.dirname(os.path.abspath(__file__)))
REPO = os.environ.get("VERIF_REPO", "/repo")
BUILD = os.path.join(ROOT, "_build")
COQ = os.path.join(ROOT, "coq")
CARGO_TARGET = os.path.join(BUILD, "cargo")
HARNESS = os.path.join(CARGO_TARGET, "debug", "ructe-verif-harness")
DRIVER = os.path.join(BUILD, "ocaml", "driver")
NPROC = min(16, os.cpu_count() or 4)
ENV = dict(os.environ, CARGO_NET_OFFLINE="true", CARGO_TARGET_DIR=CARGO_TARGET)

sys.path.insert(0, os.path.join(ROOT, "translator"))
sys.path.insert(0, os.path.join(ROOT, "gen"))

class BuildError(Exception):
    pass

def log(*a):
    print(*a, file=sys.stderr, flush=True)

def sh(cmd, cwd=None, timeout=1800, env=None, check=True, inp=None):
    r = subprocess.run(cmd, cwd=cwd, env=env or ENV, capture_output=True, timeout=timeout, input=inp)
    if check and r.returncode != 0:
        raise BuildError("command failed: %s\n%s\n%s" % (cmd, r.stdout.decode("utf8", "replace")[-3000:], r.stderr.decode("utf8", "replace")[-3000:]))
    return r

class Lock:
    def __init__(self, name="build"):
        os.makedirs(BUILD, exist_ok=True)
        self.path = os.path.join(BUILD, name + ".lock")
    def __enter__(self):
        self.f = open(self.path, "w")
        fcntl.flock(self.f, fcntl.LOCK_EX)
    def __exit__(self, *a):
        fcntl.flock(self.f, fcntl.LOCK_UN)
        self.f.close()

# ------------------------------------------------------------------ building

def build_harness(features=None, target=None):
    """cargo build of the harness against /repo's current working tree (incremental)."""
    if not os.path.exists(os.path.join(ROOT, "harness", "Cargo.lock")) and os.path.exists(os.path.join(REPO, "Cargo.lock")):
        shutil.copy(os.path.join(REPO, "Cargo.lock"), os.path.join(ROOT, "harness", "Cargo.lock"))
    env = dict(ENV)
    if target:
        env["CARGO_TARGET_DIR"] = target
    cmd = ["cargo", "build", "--offline", "--quiet", "--manifest-path", os.path.join(ROOT, "harness", "Cargo.toml")]
    if features is not None:
        cmd += ["--no-default-features", "--features", features]
    r = subprocess.run(cmd, env=env, capture_output=True, timeout=1800)
    if r.returncode != 0:
        raise BuildError("harness does not build against /repo:\n" + r.stderr.decode("utf8", "replace")[-4000:])
    return os.path.join(target or CARGO_TARGET, "debug", "ructe-verif-harness")

def regenerate_tables():
    """Tie 1.  Returns dict(changed=, fallback=, message=)."""
    import extract_tables, unitables
    ch, fb, msg = extract_tables.regenerate(REPO, os.path.join(COQ, "theories/Gen/Tables.v"))
    uch = False
    try:
        uch = unitables.main(HARNESS, os.path.join(COQ, "theories/Gen/UniTables.v"))
    except Exception as e:  # harness missing: keep committed table
        msg += "; unitables: " + str(e)
    return dict(changed=ch or uch, fallback=fb, message=msg)

def coq_makefile():
    mk = os.path.join(COQ, "Makefile")
    cp = os.path.join(COQ, "_CoqProject")
    if not os.path.exists(mk) or os.path.getmtime(mk) < os.path.getmtime(cp):
        sh(["coq_makefile", "-f", "_CoqProject", "-o", "Makefile"], cwd=COQ)
    os.makedirs(os.path.join(COQ, "assumptions"), exist_ok=True)

def coq_make(targets=None, timeout=3000):
    """full .vo build (never -vos) of the given targets (default: everything)."""
    coq_makefile()
    cmd = ["make", "-j%d" % NPROC] + (targets or [])
    r = subprocess.run(cmd, cwd=COQ, capture_output=True, timeout=timeout)
    return r.returncode == 0, (r.stdout + r.stderr).decode("utf8", "replace")

def build_driver():
    """extraction (through make: Extract.vo writes model.ml into coq/) and the OCaml driver."""
    ok, out = coq_make(["theories/Extract.vo"])
    if not ok:
        raise BuildError("model does not build:\n" + out[-4000:])
    od = os.path.join(BUILD, "ocaml")
    os.makedirs(od, exist_ok=True)
    srcs = [os.path.join(COQ, "model.ml"), os.path.join(COQ, "model.mli"), os.path.join(ROOT, "ocaml", "driver.ml")]
    if os.path.exists(DRIVER) and all(os.path.getmtime(s) <= os.path.getmtime(DRIVER) for s in srcs):
        return
    for s in srcs:
        shutil.copy(s, od)
    sh(["ocamlfind", "ocamlopt", "-O3", "-w", "-a", "model.mli", "model.ml", "driver.ml", "-o", "driver.new"], cwd=od)
    os.replace(os.path.join(od, "driver.new"), DRIVER)

def ensure_all(need_driver=True, need_harness=True):
    """Everything a check needs, rebuilt from /repo's current tree.  Returns translator info."""
    with Lock():
        if need_harness:
            build_harness()
        info = regenerate_tables()
        if need_driver:
            build_driver()
    # the lexical skeleton of the parsers, source against model (translator/skeleton.py)
    try:
        import skeleton
        info["skeleton"] = skeleton.compare(REPO, COQ)
    except Exception as e:
        info["skeleton"] = dict(functions=0, literals=0, diffs=["skeleton extraction failed: %r" % (e,)])
    return info

# ------------------------------------------------------------------ proof step

FORBIDDEN = re.compile(r"\b(Admitted|admit|Axiom|Axioms|Parameter|Parameters|Conjecture|Conjectures|Admit Obligations|Unset Guard Checking|Unset Positivity Checking|Unset Universe Checking|bypass_check|type-in-type|impredicative-set)\b")
SECTION_ONLY = re.compile(r"^\s*(Variable|Variables|Hypothesis|Hypotheses|Context)\b")
ALLOWED_AXIOMS = set()   # stdlib axioms we accept, by name; none needed so far

def strip_comments(src):
    out = []; depth = 0; i = 0; instr = False
    while i < len(src):
        if not instr and src.startswith("(*", i):
            depth += 1; i += 2; continue
        if not instr and depth > 0 and src.startswith("*)", i):
            depth -= 1; i += 2; continue
        c = src[i]
        if depth == 0:
            if c == '"': instr = not instr
            out.append(c)
        i += 1
    return "".join(out)

def scan_sources():
    """Admitted/Axiom/... anywhere; Variable/Hypothesis outside a section."""
    problems = []
    for f in sorted(glob.glob(os.path.join(COQ, "theories", "**", "*.v"), recursive=True)):
        txt = strip_comments(open(f).read())
        txt_nostr = re.sub(r'"[^"]*"', '""', txt)
        for m in FORBIDDEN.finditer(txt_nostr):
            problems.append("%s: forbidden token %r" % (os.path.relpath(f, ROOT), m.group(0)))
        depth = 0
        for line in txt_nostr.split("\n"):
            if re.match(r"^\s*Section\b", line): depth += 1
            elif re.match(r"^\s*End\b", line) and depth > 0: depth -= 1
            elif SECTION_ONLY.match(line) and depth == 0:
                problems.append("%s: %s outside a section" % (os.path.relpath(f, ROOT), line.strip()[:60]))
    cp = open(os.path.join(COQ, "_CoqProject")).read()
    if re.search(r"type-in-type|impredicative-set|-vos|bypass", cp):
        problems.append("_CoqProject passes a forbidden flag")
    return problems

def proof_step(pid, thorough=False):
    """Re-check Props/<pid>.v from a fresh compile of that file (its dependencies through make).
    Returns dict(ok, theorems=[{name, axioms, closed}], obligations, discharged, log, problems)."""
    res = dict(ok=False, theorems=[], obligations=0, discharged=0, problems=[], log="")
    vfile = os.path.join(COQ, "theories", "Props", pid + ".v")
    src = strip_comments(open(vfile).read())
    names = re.findall(r"^\s*(?:Theorem|Lemma|Corollary)\s+([A-Za-z0-9_']+)", src, re.M)
    # examples (non-vacuity witnesses, concrete derivations) count when the file asks for their assumptions
    names += [n for n in re.findall(r"^\s*Example\s+([A-Za-z0-9_']+)", src, re.M) if ('Print Assumptions %s.' % n) in src]
    res["obligations"] = len(names)
    with Lock():
        for f in glob.glob(os.path.join(COQ, "assumptions", pid + ".*.out")):
            os.remove(f)
        for ext in (".vo", ".glob", ".vok", ".vos"):
            p = vfile[:-2] + ext
            if os.path.exists(p): os.remove(p)
        ok, out = coq_make(["theories/Props/%s.vo" % pid])
    res["log"] = out[-6000:]
    res["problems"] = scan_sources()
    if not ok:
        m = re.search(r'File "([^"]+)", line (\d+)', out)
        res["broken_at"] = (m.group(1) + ":" + m.group(2)) if m else "unknown"
        return res
    disc = 0
    for n in names:
        p = os.path.join(COQ, "assumptions", "%s.%s.out" % (pid, n))
        if not os.path.exists(p):
            res["problems"].append("no Print Assumptions output for " + n)
            continue
        txt = open(p).read().strip()
        closed = txt.startswith("Closed under the global context")
        axioms = [] if closed else re.findall(r"^([A-Za-z0-9_.']+)\s*:", txt, re.M)
        bad = [a for a in axioms if a not in ALLOWED_AXIOMS]
        res["theorems"].append(dict(name=n, closed=closed, axioms=axioms))
        if bad:
            res["problems"].append("theorem %s depends on %s" % (n, ", ".join(bad)))
        else:
            disc += 1
    res["discharged"] = disc
    if thorough:
        # under the build lock: another check of the same property (quick next to thorough) deletes and recompiles Props/<pid>.vo
        with Lock():
            if not os.path.exists(vfile[:-2] + ".vo"): coq_make(["theories/Props/%s.vo" % pid])
            r = subprocess.run(["coqchk", "-silent", "-o", "-Q", "theories", "Ructe", "Ructe.Props." + pid], cwd=COQ, capture_output=True, timeout=3000)
        txt = (r.stdout + r.stderr).decode("utf8", "replace")
        res["coqchk"] = txt[-1500:]
        if r.returncode != 0:
            res["problems"].append("coqchk failed")
        elif "* Axioms: <none>" not in txt:
            res["problems"].append("coqchk lists axioms: " + txt[txt.find("* Axioms"):][:400])
    res["ok"] = (disc == len(names)) and not res["problems"]
    return res

# ------------------------------------------------------------------ running cases

def hexs(b):
    return b.hex() if b else "-"
def unhexs(s):
    if s == "-": return b""
    try: return bytes.fromhex(s)
    except ValueError:
        # a harness field that should be hex but is an error text: kept recognisable, so that the caller's comparison fails instead of the check crashing
        return b"<not hex: " + s[:80].encode("utf8", "replace") + b">"

def _big_stack():
    # the extracted model recurses over lists (app, map are not tail recursive): give the children the largest stack allowed
    import resource
    try:
        soft, hard = resource.getrlimit(resource.RLIMIT_STACK)
        resource.setrlimit(resource.RLIMIT_STACK, (hard, hard))
    except Exception:
        pass

def run_lines(binary, stage, lines, shards=NPROC, timeout=600, env=None, cwd=None, _retry=True):
    """feed `lines` (list of str) to `binary stage` over up to `shards` processes; returns list of output lines
    (one per input line).  A process that dies or hangs yields 'CRASH' for the line it was working on; the lines queued
    behind it in the same process are run again in fresh processes, so one bad case does not hide the others."""
    res = _run_lines_once(binary, stage, lines, shards, timeout, env, cwd)
    for _ in range(6 if _retry else 0):
        todo = [i for i, r in enumerate(res) if r == "SKIPPED"]
        if not todo: break
        again = _run_lines_once(binary, stage, [lines[i] for i in todo], shards, timeout, env, cwd)
        for i, r in zip(todo, again): res[i] = r
    return res

def _run_lines_once(binary, stage, lines, shards, timeout, env, cwd):
    n = len(lines)
    if n == 0:
        return []
    k = max(1, min(shards, (n + 49) // 50)) if shards <= NPROC else min(n, shards)
    chunks = [lines[i::k] for i in range(k)]
    procs = []
    for ch in chunks:
        p = subprocess.Popen([binary, stage], stdin=subprocess.PIPE, stdout=subprocess.PIPE, stderr=subprocess.DEVNULL, env=env, cwd=cwd, preexec_fn=_big_stack)
        procs.append(p)
    # write inputs via threads to avoid pipe deadlock
    import threading
    outs = [None] * k
    def feed(i):
        data = ("\n".join(chunks[i]) + "\n").encode()
        try:
            o, _ = procs[i].communicate(data, timeout=timeout)
        except subprocess.TimeoutExpired:
            procs[i].kill(); o = b""
        outs[i] = o.decode("utf8", "replace").split("\n")
    ths = [threading.Thread(target=feed, args=(i,)) for i in range(k)]
    for t in ths: t.start()
    for t in ths: t.join()
    res = [None] * n
    for i in range(k):
        o = outs[i]
        if o and o[-1] == "": o = o[:-1]
        for j, idx in enumerate(range(i, n, k)):
            # the first line without an answer is where the process died or hung
            res[idx] = o[j] if j < len(o) else ("CRASH" if j == len(o) else "SKIPPED")
    return res

def run_impl(stage, lines, **kw):
    return run_lines(HARNESS, stage, lines, **kw)
def run_model(stage, lines, **kw):
    return run_lines(DRIVER, stage, lines, **kw)

# ------------------------------------------------------------------ extraction cross-check
def coq_bytes(b):
    return "[" + "; ".join("%d%%N" % x for x in b) + "]"

def extraction_crosscheck(samples):
    """The correspondence runs the model through extraction (ExtrOcamlBasic) and an OCaml driver.  Here the same inputs are
    evaluated inside Coq (vm_compute on the Gallina definitions the theorems are about) and compared with what the
    extracted driver prints, so that extraction and the driver's glue are themselves checked.
    samples: list of (name bytes, source bytes).  Returns (n compared, list of mismatch descriptions)."""
    work = os.path.join(BUILD, "xcheck"); os.makedirs(work, exist_ok=True)
    v = ["From Ructe Require Import Nom Utf8 Compile UniTables Extract.", "Local Open Scope list_scope.",
         "Definition show (o : coutcome) : list N := match o with Accepted r => 65%N :: r | Rejected d => 82%N :: d | Panicked => [80%N] | NoFuel => [70%N] end."]
    for name, src in samples:
        v.append("Eval vm_compute in show (compile_m %s %s)." % (coq_bytes(name), coq_bytes(src)))
    open(os.path.join(work, "xcheck.v"), "w").write("\n".join(v) + "\n")
    with Lock():
        r = subprocess.run(["coqc", "-noglob", "-Q", os.path.join(COQ, "theories"), "Ructe", "xcheck.v"], cwd=work, capture_output=True, text=True, timeout=1800)
    if r.returncode != 0:
        return 0, ["coqc failed on the cross-check file: " + r.stderr[-400:]]
    outs = re.findall(r"=\s*(\[[^\]]*\])\s*:\s*list N", r.stdout, re.S)
    coq = [bytes(int(x) for x in re.findall(r"(\d+)%N", o)) for o in outs]
    drv = run_model("compile", ["%s %s" % (hexs(n), hexs(s0)) for n, s0 in samples])
    bad = []
    if len(coq) != len(samples): bad.append("%d results from Coq for %d inputs" % (len(coq), len(samples)))
    for (n, s0), c, d in zip(samples, coq, drv):
        f = d.split(" ")
        want = {"OK": b"A", "ERR": b"R", "PANIC": b"P", "FUEL": b"F"}.get(f[0], b"?") + (unhexs(f[1]) if len(f) > 1 else b"")
        if c != want:
            bad.append("source %r: vm_compute gives %r..., the extracted driver %r..." % (s0[:80], c[:60], want[:60]))
    return len(coq), bad

def io_crosscheck(cases):
    """the same for Model/Io.v: cases are (wrapper D|H|B, pieces: list of bytes, schedule tokens: list of str)"""
    work = os.path.join(BUILD, "xcheck"); os.makedirs(work, exist_ok=True)
    def resp(t):
        return "Accept %d" % int(t[1:]) if t[0] == "a" else "Interrupted" if t[0] == "i" else "Fail %d%%N" % int(t[1:])
    v = ["From Ructe Require Import Io.", "Local Open Scope list_scope.",
         "Definition showr (r : outcome) : list N := match r with Done => [0%N] | Failed WriteZero => [1%N] | Failed (Io e) => [2%N; e] | OutOfFuel => [3%N] end.",
         "Definition run (v : hval) (sc : list resp) : list N := let '(s, r) := to_html v {| sched := sc; log := [] |} in log s ++ [256%N] ++ showr r.",
         "Definition bufof (v : hval) : hval := match to_buffer v with Some b => VBuffer b | None => VBuffer [] end."]
    for w, ps, sc in cases:
        val = "VDisplay [%s]" % "; ".join(coq_bytes(p) for p in ps)
        if w == "H": val = "VRaw [%s]" % "; ".join(coq_bytes(p) for p in ps)
        if w == "B": val = "bufof (%s)" % val
        v.append("Eval vm_compute in run (%s) [%s]." % (val, "; ".join(resp(t) for t in sc)))
    open(os.path.join(work, "xio.v"), "w").write("\n".join(v) + "\n")
    with Lock():
        r = subprocess.run(["coqc", "-noglob", "-Q", os.path.join(COQ, "theories"), "Ructe", "xio.v"], cwd=work, capture_output=True, text=True, timeout=1800)
    if r.returncode != 0:
        return 0, ["coqc failed on the io cross-check file: " + r.stderr[-400:]]
    outs = re.findall(r"=\s*(\[[^\]]*\])\s*:\s*list N", r.stdout, re.S)
    coq = [[int(x) for x in re.findall(r"(\d+)%N", o)] for o in outs]
    lines = ["%s %s %s" % (w, ",".join(hexs(p) for p in ps) if ps else "-", ",".join(sc) if sc else "-") for w, ps, sc in cases]
    drv = run_model("io", lines)
    bad = []
    if len(coq) != len(cases): bad.append("%d results from Coq for %d inputs" % (len(coq), len(cases)))
    for line, c, d in zip(lines, coq, drv):
        f = d.split(" ")
        k = c.index(256) if 256 in c else len(c)
        res = c[k + 1:]
        rs = "ok" if res == [0] else "wz" if res == [1] else ("io%d" % res[1]) if res[:1] == [2] else "FUEL"
        if bytes(c[:k]) != unhexs(f[0]) or rs != (f[1] if len(f) > 1 else "?"):
            bad.append("case %s: vm_compute gives %s %s, the extracted driver %s" % (line, bytes(c[:k]).hex(), rs, d[:80]))
    return len(coq), bad

def statics_crosscheck(model_lines):
    """the same for Model/Static.v: model_lines are driver input lines `<mode> <header hex> op ...` with ops F/A/D (hex fields)"""
    work = os.path.join(BUILD, "xcheck"); os.makedirs(work, exist_ok=True)
    v = ["From Ructe Require Import Nom Static Extract.", "Local Open Scope list_scope.",
         "Definition runs (mm : mime_mode) (header : list N) (ops : list sop) : list N := finish (fold_left (apply_op_m mm) ops (empty_statics header))."]
    use = []
    for l in model_lines:
        f = l.split(" ")
        ops = []
        for op in f[2:]:
            k = op.split(":")
            if k[0] == "F": ops.append("OpFile %s %s" % (coq_bytes(unhexs(k[1])), coq_bytes(unhexs(k[2]))))
            elif k[0] == "A": ops.append("OpFileAs %s %s" % (coq_bytes(unhexs(k[1])), coq_bytes(unhexs(k[2]))))
            elif k[0] == "D": ops.append("OpData %s %s" % (coq_bytes(unhexs(k[1])), coq_bytes(unhexs(k[2]))))
            else: ops = None; break
        if ops is None: continue
        mode = {"3": "M03", "h": "MHttp"}.get(f[0], "MNone")
        v.append("Eval vm_compute in runs %s %s [%s]." % (mode, coq_bytes(unhexs(f[1])), "; ".join(ops))); use.append(l)
    open(os.path.join(work, "xst.v"), "w").write("\n".join(v) + "\n")
    with Lock():
        r = subprocess.run(["coqc", "-noglob", "-Q", os.path.join(COQ, "theories"), "Ructe", "xst.v"], cwd=work, capture_output=True, text=True, timeout=1800)
    if r.returncode != 0:
        return 0, ["coqc failed on the statics cross-check file: " + r.stderr[-400:]]
    outs = re.findall(r"=\s*(\[[^\]]*\])\s*:\s*list N", r.stdout, re.S)
    coq = [bytes(int(x) for x in re.findall(r"(\d+)%N", o)) for o in outs]
    drv = run_model("statics", use)
    bad = []
    if len(coq) != len(use): bad.append("%d results from Coq for %d inputs" % (len(coq), len(use)))
    for l, c, d in zip(use, coq, drv):
        m = re.search(r"statics=([0-9a-f-]+)", d)
        if not m or unhexs(m.group(1)) != c:
            bad.append("history %s...: vm_compute and the extracted driver give different statics.rs texts" % l[:120])
    return len(coq), bad

def _coq_tree(t):
    """driver tree syntax (F<hex> | D[name=tree;...]) -> Gallina term; returns (term, rest)"""
    if t[0] == "F":
        j = 1
        while j < len(t) and t[j] not in ";]": j += 1
        h = t[1:j]
        return "File %s" % coq_bytes(bytes.fromhex(h) if h else b""), t[j:]
    assert t[:2] == "D["
    t = t[2:]; es = []
    while t[0] != "]":
        j = t.index("=")
        name = unhexs(t[:j]); term, t = _coq_tree(t[j + 1:])
        es.append("(%s, %s)" % (coq_bytes(name), term))
        if t[0] == ";": t = t[1:]
    return "Dir [%s]" % "; ".join(es), t[1:]

def build_crosscheck(model_lines, limit=12):
    """the same for Model/Build.v: driver input lines `<mode> <utils> <header> <base> <tree> <fs0> <program>`; the helper
    file is replaced by one byte (it is only copied), small scenarios only"""
    work = os.path.join(BUILD, "xcheck"); os.makedirs(work, exist_ok=True)
    v = ["From Ructe Require Import Nom Static Build Extract.", "Local Open Scope list_scope.",
         "Definition digest (r : result) (h : bool) : list N :=",
         "  (if r_ok r then [1%N] else [0%N]) ++ (if h then [1%N] else [0%N]) ++ [255%N] ++ flat_map (fun p => p ++ [10%N]) (r_writes r) ++ [255%N] ++ r_out r ++ [255%N] ++",
         "  flat_map (fun pc => fst pc ++ [0%N] ++ snd pc ++ [1%N]) (r_fs r)."]
    use = []
    for l in model_lines:
        f = l.split(" ")
        if len(f) != 7 or len(l) - len(f[1]) > 40000: continue
        mode = {"3": "M03", "h": "MHttp"}.get(f[0], "MNone")
        try:
            tree, rest = _coq_tree(f[4])
            fs0 = "[]" if f[5] == "-" else "[" + "; ".join("(%s, %s)" % tuple(coq_bytes(unhexs(x)) for x in kv.split("=")) for kv in f[5].split(",")) + "]"
            calls = []; cur = None
            for c in ([] if f[6] == "-" else f[6].split(",")):
                a = c[1:]; two = lambda: tuple(coq_bytes(unhexs(x)) for x in a.split(";"))
                if c[0] == "c": calls.append("PCompile %s" % coq_bytes(unhexs(a))); cur = None
                elif c == "s": cur = []; calls.append(cur)
                elif c[0] == "f": cur.append("SAddFile %s" % coq_bytes(unhexs(a)))
                elif c[0] == "g": cur.append("SAddFiles %s" % coq_bytes(unhexs(a)))
                elif c[0] == "a": cur.append("SAddFileAs %s %s" % two())
                elif c[0] == "t": cur.append("SAddFilesAs %s %s" % two())
                elif c[0] == "d": cur.append("SAddData %s %s" % two())
                elif c[0] == "S": cur.append("SSassRef %s %s" % two())
                elif c[0] == "C": cur.append("SSassCss %s %s" % two())
                else: raise ValueError(c)
            cs = "[" + "; ".join(x if isinstance(x, str) else "PStatics [%s]" % "; ".join(x) for x in calls) + "]"
        except Exception:
            continue
        args = "[85%%N] %s %s (%s) %s" % (coq_bytes(unhexs(f[2])), mode, tree, coq_bytes(unhexs(f[3])))
        v.append("Eval vm_compute in digest (run_build_m %s %s %s) (plan_ok_m %s %s)." % (args, fs0, cs, args, cs))
        use.append(" ".join([f[0], "55"] + f[2:]))
        if len(use) >= limit: break
    if not use: return 0, []
    open(os.path.join(work, "xbuild.v"), "w").write("\n".join(v) + "\n")
    with Lock():
        r = subprocess.run(["coqc", "-noglob", "-Q", os.path.join(COQ, "theories"), "Ructe", "xbuild.v"], cwd=work, capture_output=True, text=True, timeout=1800)
    if r.returncode != 0:
        return 0, ["coqc failed on the build cross-check file: " + r.stderr[-400:]]
    outs = re.findall(r"=\s*(\[[^\]]*\])\s*:\s*list N", r.stdout, re.S)
    coq = [bytes(int(x) for x in re.findall(r"(\d+)%N", o)) for o in outs]
    drv = run_model("build", use)
    bad = []
    if len(coq) != len(use): bad.append("%d results from Coq for %d inputs" % (len(coq), len(use)))
    for l, c, d in zip(use, coq, drv):
        kv = dict(x.split("=", 1) for x in d.split(" ") if "=" in x)
        lst = lambda v0: [] if v0 in ("-", None) else v0.split(",")
        dig = (b"\x01" if kv.get("ok") == "1" else b"\x00") + (b"\x01" if kv.get("hyp") == "1" else b"\x00") + b"\xff" + b"".join(unhexs(x) + b"\n" for x in lst(kv.get("writes"))) + b"\xff" + \
              unhexs(kv.get("out", "-")) + b"\xff" + b"".join(unhexs(x.split("=")[0]) + b"\x00" + unhexs(x.split("=")[1]) + b"\x01" for x in lst(kv.get("fs")))
        if dig != c:
            bad.append("scenario %s...: vm_compute and the extracted driver give different results for run_build" % l[:160])
    return len(coq), bad

# ------------------------------------------------------------------ known findings

def known_findings():
    path = os.path.join(ROOT, "known_findings.txt")
    known = []; fixed = []
    if os.path.exists(path):
        for l in open(path):
            l = l.strip()
            if l.startswith("known:"):
                m = re.match(r"known:\s*property=(\S+)\s+key=(\S+)\s+(.*)", l)
                if m: known.append(dict(property=m.group(1), key=m.group(2), what=m.group(3)))
            elif l.startswith("fixed:"):
                fixed.append(l)
    return known, fixed

# ------------------------------------------------------------------ reporting

class Check:
    def __init__(self, pid, tier):
        self.pid = pid; self.tier = tier
        self.seed = int(os.environ.get("VERIF_SEED", "1"))
        self.rng = random.Random(self.seed * 1000003 + sum(map(ord, pid)))
        self.t0 = time.time()
        self.cov = dict(evaluations=0, distinct_nontrivial=0, samples=[], obligations=0, discharged=0,
                        checker_cmd="make -C coq theories/Props/%s.vo (coqc 8.16.1, full .vo build) + Print Assumptions per theorem" % pid,
                        trusted_base=[], rule="")
        self.assumptions = []
        self.violations = []
        self.known_hits = []
        self.notes = {}
        self._distinct = set()

    def count(self, case_key, nontrivial=True):
        self.cov["evaluations"] += 1
        if nontrivial:
            h = hashlib.blake2b(case_key if isinstance(case_key, bytes) else str(case_key).encode(), digest_size=8).digest()
            self._distinct.add(h)

    def sample(self, s, cap=6):
        if len(self.cov["samples"]) < cap:
            self.cov["samples"].append(s)

    def violation(self, what, replay, failing_input_found=True):
        """record a violation; replay is a JSON-able dict"""
        os.makedirs(os.path.join(BUILD, "replay"), exist_ok=True)
        path = os.path.join(BUILD, "replay", "%s-%d-%d.json" % (self.pid, self.seed, len(self.violations)))
        replay = dict(replay, property=self.pid, what=what, failing_input_found=failing_input_found)
        json.dump(replay, open(path, "w"), indent=1, default=lambda x: x.hex() if isinstance(x, (bytes, bytearray)) else str(x))
        self.violations.append((what, path, failing_input_found))

    def finish(self, proof=None, translator=None, level="proof"):
        self.cov["distinct_nontrivial"] = len(self._distinct)
        if proof is not None:
            self.cov["obligations"] = proof["obligations"]
            self.cov["discharged"] = proof["discharged"]
            self.cov["theorems"] = proof["theorems"]
            if proof.get("coqchk"): self.cov["coqchk"] = proof["coqchk"]
        if translator is not None:
            self.cov["translator_fallback"] = translator["fallback"]
            self.cov["translator_message"] = translator["message"]
            if translator.get("skeleton"):
                sk = translator["skeleton"]
                self.cov["parser_skeleton"] = "%d parser functions, %d literals (tags, messages, delimiter sets) equal in source and model, in order" % (sk["functions"], sk["literals"]) if not sk["diffs"] else "DIFFERS: " + "; ".join(sk["diffs"][:3])
        self.cov.update(self.notes)
        self.cov["trusted_base"] = TRUSTED_BASE + self.cov["trusted_base"]
        ev = dict(property_id=self.pid, tier=self.tier, seed=self.seed, level=level, coverage=self.cov,
                  assumptions=self.assumptions, wall_s=round(time.time() - self.t0, 2), violations=len(self.violations))
        os.makedirs(os.path.join(ROOT, "evidence"), exist_ok=True)
        json.dump(ev, open(os.path.join(ROOT, "evidence", self.pid + ".json"), "w"), indent=1,
                  default=lambda x: x.hex() if isinstance(x, (bytes, bytearray)) else str(x))
        for k in self.known_hits:
            print("KNOWN-FINDING: property=%s %s" % (self.pid, k))
        for what, path, found in self.violations:
            print("VIOLATION property=%s replay=%s%s" % (self.pid, path, "" if found else " no-failing-input-found"))
            log("  " + what)
        sys.stdout.flush()
        return 1 if self.violations else 0

TRUSTED_BASE = [
    "Coq 8.16.1 kernel (vm_compute used for finite table checks and witnesses; native_compute not used)",
    "no axioms declared; every property theorem must print 'Closed under the global context'",
    "hand-written Gallina model of the code, tied to /repo by the correspondence check (extracted OCaml vs implementation, byte for byte) and by translator-generated tables",
    "extraction: ExtrOcamlBasic only (Extract Inductive bool option unit list prod sumbool sumor; Extract Inlined Constant andb orb); OCaml 4.13.1; hex line driver; on every run of C02, C06, C08, C11 and of the build-stage checks C10, C12, C17, C18 a sample of the cases is also evaluated by vm_compute inside Coq and compared with what the extracted driver prints",
    "translator/skeleton.py: the parsers' literals (tags, messages, delimiter sets) are read from the Rust source with regular expressions and compared with the model's, in order",
    "Rust harness (catch_unwind), Python generators/oracles, rustc 1.95.0 and installed core for compile-and-run batches",
]

def proof_violation(chk, proof):
    """A proof obligation no longer checks: report per protocol (failing input search is the caller's job)."""
    what = "proof obligations of %s no longer check (%d/%d discharged): %s" % (
        chk.pid, proof["discharged"], proof["obligations"],
        "; ".join(proof["problems"]) or ("Coq error at " + proof.get("broken_at", "?")))
    return what
