//! Runs the *implementation* (ructe at /repo, current working tree) on case files.
//! Line protocol: one case per stdin line, fields separated by spaces, byte strings in hex
//! ("-" for the empty string).  One result line per case on stdout.
use std::io::{BufRead, Write};

mod io_cases;
mod statics_cases;
mod build_cases;

pub fn unhex(s: &str) -> Vec<u8> {
    if s == "-" {
        return Vec::new();
    }
    (0..s.len() / 2)
        .map(|i| u8::from_str_radix(&s[2 * i..2 * i + 2], 16).unwrap())
        .collect()
}
pub fn hex(b: &[u8]) -> String {
    if b.is_empty() {
        return "-".into();
    }
    let mut s = String::with_capacity(b.len() * 2);
    for x in b {
        s.push_str(&format!("{:02x}", x));
    }
    s
}

fn compile_cases() {
    let stdin = std::io::stdin();
    let out = std::io::stdout();
    let mut out = out.lock();
    for line in stdin.lock().lines() {
        let line = line.unwrap();
        let mut f = line.split(' ');
        let name = String::from_utf8(unhex(f.next().unwrap())).unwrap();
        let src = unhex(f.next().unwrap_or("-"));
        let r = std::panic::catch_unwind(|| ructe::verif_hooks::compile_template(&name, &src));
        match r {
            Ok(Ok(code)) => writeln!(out, "OK {}", hex(code.as_bytes())).unwrap(),
            Ok(Err(diag)) => writeln!(out, "ERR {}", hex(diag.as_bytes())).unwrap(),
            Err(_) => writeln!(out, "PANIC").unwrap(),
        }
    }
}

/// Ranges of scalar values >= 0x80 that `<str as Debug>` prints as `\u{..}`, and ranges
/// of scalar values >= 0x80 for which `char::is_alphanumeric` holds, per the installed core.
fn unitables() {
    fn ranges(name: &str, f: impl Fn(char) -> bool) {
        let mut cur: Option<(u32, u32)> = None;
        let mut out = Vec::new();
        for cp in 0x80u32..=0x10FFFF {
            let v = char::from_u32(cp).map_or(false, &f);
            match (&mut cur, v) {
                (Some((_, hi)), true) if *hi + 1 == cp => *hi = cp,
                (_, true) => {
                    if let Some(r) = cur.take() {
                        out.push(r);
                    }
                    cur = Some((cp, cp));
                }
                (_, false) => {}
            }
        }
        if let Some(r) = cur {
            out.push(r);
        }
        println!(
            "{} {}",
            name,
            out.iter().map(|(a, b)| format!("{a}-{b}")).collect::<Vec<_>>().join(",")
        );
    }
    ranges("debug_esc", |c| format!("{:?}", c.to_string()).starts_with("\"\\u{"));
    ranges("alnum", |c| c.is_alphanumeric());
    ranges("lower_differs", |c| c.to_lowercase().to_string() != c.to_string());
}

fn main() {
    std::panic::set_hook(Box::new(|_| {}));
    let cmd = std::env::args().nth(1).unwrap_or_default();
    match cmd.as_str() {
        "compile" => compile_cases(),
        "unitables" => unitables(),
        "io" => io_cases::run(),
        "statics" => statics_cases::run(),
        "build" => build_cases::run(),
        _ => {
            eprintln!("usage: harness compile|unitables|io|statics|build");
            std::process::exit(2);
        }
    }
}
