//! Runs the *implementation* (ructe at /repo, current working tree) on case files.
//! Line protocol: one case per stdin line, fields separated by spaces, byte strings in hex
//! ("-" for the empty string).  One result line per case on stdout.
use std::io::{BufRead, Write};

mod io_cases;
mod statics_cases;
mod build_cases;

pub fn unhex(s: &str) -> Vec<u8> {
    if s == "-" {
        return Vec::new();
    }
    (0..s.len() / 2)
        .map(|i| u8::from_str_radix(&s[2 * i..2 * i + 2], 16).unwrap())
        .collect()
}
pub fn hex(b: &[u8]) -> String {
    if b.is_empty() {
        return "-".into();
    }
    let mut s = String::with_capacity(b.len() * 2);
    for x in b {
        s.push_str(&format!("{:02x}", x));
    }
    s
}

fn compile_cases() {
    let stdin = std::io::stdin();
    let out = std::io::stdout();
    let mut out = out.lock();
    for line in stdin.lock().lines() {
        let line = line.unwrap();
        let mut f = line.split(' ');
        let name = String::from_utf8(unhex(f.next().unwrap())).unwrap();
        let src = unhex(f.next().unwrap_or("-"));
        let r = std::panic::catch_unwind(|| ructe::verif_hooks::compile_template(&name, &src));
        match r {
            Ok(Ok(code)) => writeln!(out, "OK {}", hex(code.as_bytes())).unwrap(),
            Ok(Err(diag)) => writeln!(out, "ERR {}", hex(diag.as_bytes())).unwrap(),
            Err(_) => writeln!(out, "PANIC").unwrap(),
        }
    }
}

/// Ranges of scalar values >= 0x80 that `<str as Debug>` prints as `\u{..}`, and ranges
/// of scalar values >= 0x80 for which `char::is_alphanumeric` holds, per the installed core.
fn unitables() {
    fn ranges(name: &str, f: impl Fn(char) -> bool) {
        let mut cur: Option<(u32, u32)> = None;
        let mut out = Vec::new();
        for cp in 0x80u32..=0x10FFFF {
            let v = char::from_u32(cp).map_or(false, &f);
            match (&mut cur, v) {
                (Some((_, hi)), true) if *hi + 1 == cp => *hi = cp,
                (_, true) => {
                    if let Some(r) = cur.take() {
                        out.push(r);
                    }
                    cur = Some((cp, cp));
                }
                (_, false) => {}
            }
        }
        if let Some(r) = cur {
            out.push(r);
        }
        println!(
            "{} {}",
            name,
            out.iter().map(|(a, b)| format!("{a}-{b}")).collect::<Vec<_>>().join(",")
        );
    }
    ranges("debug_esc", |c| format!("{:?}", c.to_string()).starts_with("\"\\u{"));
    ranges("alnum", |c| c.is_alphanumeric());
    ranges("lower_differs", |c| c.to_lowercase().to_string() != c.to_string());
}

/// `capture <stage>`: run `<stage>` in a child process with piped stdout, and turn each
/// ##CASE..##END group into one result line: the `##R k=v` fields in order, with
/// `out=<hex of the other lines the case printed>` (ructe's own println! output) inserted
/// at the position where they were printed.
/// A child that dies in the middle of a case yields `died=1` for that case; the remaining
/// input is handed to a fresh child.
fn capture(stage: &str) {
    use std::process::{Command, Stdio};
    let stdin = std::io::stdin();
    let lines: Vec<String> = stdin.lock().lines().map(|l| l.unwrap()).collect();
    let mut next = 0usize;
    let out = std::io::stdout();
    let mut out = out.lock();
    while next < lines.len() {
        let mut child = Command::new(std::env::current_exe().unwrap())
            .arg(stage)
            .stdin(Stdio::piped())
            .stdout(Stdio::piped())
            .spawn()
            .unwrap();
        let mut cin = child.stdin.take().unwrap();
        let batch: Vec<String> = lines[next..].to_vec();
        let feeder = std::thread::spawn(move || {
            for l in batch {
                if writeln!(cin, "{l}").is_err() {
                    break;
                }
            }
        });
        let reader = std::io::BufReader::new(child.stdout.take().unwrap());
        let mut fields: Vec<String> = Vec::new();
        let mut other: Vec<u8> = Vec::new();
        let mut in_case = false;
        for l in reader.split(b'\n') {
            let l = l.unwrap();
            if l == b"##CASE" {
                in_case = true;
                fields.clear();
                other.clear();
            } else if l == b"##END" {
                if !other.is_empty() {
                    fields.push(format!("out={}", hex(&other)));
                    other.clear();
                }
                writeln!(out, "{}", fields.join(" ")).unwrap();
                in_case = false;
                next += 1;
            } else if l.starts_with(b"##R ") {
                // what the case printed so far belongs before this field
                if !other.is_empty() {
                    fields.push(format!("out={}", hex(&other)));
                    other.clear();
                }
                fields.push(String::from_utf8_lossy(&l[4..]).into_owned());
            } else if in_case {
                other.extend_from_slice(&l);
                other.push(b'\n');
            }
        }
        let _ = child.wait();
        let _ = feeder.join();
        if in_case {
            if !other.is_empty() {
                fields.push(format!("out={}", hex(&other)));
            }
            writeln!(out, "{} died=1", fields.join(" ")).unwrap();
            next += 1;
        } else if next < lines.len() {
            // child ended between cases without consuming everything: avoid a livelock
            writeln!(out, "died=1").unwrap();
            next += 1;
        }
    }
}

fn main() {
    std::panic::set_hook(Box::new(|_| {}));
    let cmd = std::env::args().nth(1).unwrap_or_default();
    if cmd == "capture" {
        let stage = std::env::args().nth(2).unwrap_or_default();
        return capture(&stage);
    }
    match cmd.as_str() {
        "compile" => compile_cases(),
        "unitables" => unitables(),
        "io" => io_cases::run(),
        "statics" => statics_cases::run(),
        "build" => build_cases::run(),
        "build-once" => build_cases::run_once(),
        _ => {
            eprintln!("usage: harness compile|unitables|io|statics|build");
            std::process::exit(2);
        }
    }
}
