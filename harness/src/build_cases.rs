//! S4 (build-script world): input trees, build-script programs over the public API, prior
//! OUT_DIR contents, crashes.  Child protocol as in statics_cases.rs (use through `capture`).
//! A case is a sequence of ops separated by spaces:
//!   W:<relpath>:<content>   write an input file (parents created)
//!   T:<relpath>:<content>   write an input file keeping the modification time it had (cp -p, rsync -t, an edit within the same second)
//!   Y:<relpath>:<target>    create a symbolic link (the directory walkers of StaticFiles skip what is neither a regular file nor a
//!                           directory; the listing `L` leaves symbolic links out, so the model does not see them either)
//!   M:<reldir>              create an input directory
//!   X:<relpath>             remove an input file or directory tree
//!   N:<from>:<to>           rename an input file or directory
//!   O:<relpath>:<content>   write a file under OUT_DIR (pre-existing garbage / truncation)
//!   Z                       set the sentinel mtime on every file under OUT_DIR
//!   L                       report the input tree in read_dir order   -> ##R ls=..
//!   R:<program>             run a build script in-process            -> ##R run=ok|E..|panic
//!   C:<k>:<keep>:<program>  run it in a child process that aborts at the k-th physical write
//!                           after writing `keep` bytes (-1: len-1, -2: half)  -> ##R crash=<exit>
//!   P                       report OUT_DIR: every file with content and whether its mtime still
//!                           is the sentinel                           -> ##R snap=..
//! program: calls separated by ',':  c<dir>  compile_templates(dir);  s  statics();
//!   f<path> add_file; g<dir> add_files; a<path>;<url> add_file_as; t<dir>;<to> add_files_as;
//!   d<path>;<data> add_file_data; S<path> add_sass_file   (all arguments hex, relative to the
//!   input root which is CARGO_MANIFEST_DIR)
use crate::statics_cases::{keep, workdir};
use crate::{hex, unhex};
use ructe::Ructe;
use std::io::BufRead;
use std::path::{Path, PathBuf};
use std::time::{Duration, SystemTime};

fn s(h: &str) -> String {
    String::from_utf8(unhex(h)).unwrap()
}

fn sentinel() -> SystemTime {
    SystemTime::UNIX_EPOCH + Duration::from_secs(1_000_000_000)
}

fn walk(dir: &Path, rel: &str, f: &mut dyn FnMut(&Path, &str, bool)) {
    let mut entries: Vec<_> = match std::fs::read_dir(dir) {
        Ok(r) => r.filter_map(|e| e.ok()).collect(),
        Err(_) => return,
    };
    entries.sort_by_key(|e| e.file_name());
    for e in entries {
        let name = e.file_name().to_string_lossy().to_string();
        let r = if rel.is_empty() { name.clone() } else { format!("{rel}/{name}") };
        let is_dir = e.file_type().map(|t| t.is_dir()).unwrap_or(false);
        f(&e.path(), &r, is_dir);
        if is_dir {
            walk(&e.path(), &r, f);
        }
    }
}

/// the input tree in the order read_dir yields it in this process (that order is what the
/// model is given)
fn listing(dir: &Path, rel: &str, out: &mut Vec<String>) {
    let entries: Vec<_> = match std::fs::read_dir(dir) {
        Ok(r) => r.filter_map(|e| e.ok()).collect(),
        Err(_) => return,
    };
    let mut here = Vec::new();
    for e in &entries {
        if e.file_type().map(|t| t.is_symlink()).unwrap_or(false) {
            continue;
        }
        let is_dir = e.file_type().map(|t| t.is_dir()).unwrap_or(false);
        here.push(format!("{}/{}", hex(e.file_name().to_string_lossy().as_bytes()), if is_dir { "d" } else { "f" }));
    }
    out.push(format!("{}:{}", hex(rel.as_bytes()), here.join(",")));
    for e in &entries {
        if e.file_type().map(|t| t.is_dir()).unwrap_or(false) {
            let name = e.file_name().to_string_lossy().to_string();
            let r = if rel.is_empty() { name } else { format!("{rel}/{name}") };
            listing(&e.path(), &r, out);
        }
    }
}

pub fn run_program(base: &Path, out: &Path, program: &str) -> Result<(), String> {
    std::env::set_var("CARGO_MANIFEST_DIR", base);
    let mut r = Ructe::new(out.to_path_buf()).map_err(|e| format!("{e:?}"))?;
    let calls: Vec<&str> = program.split(',').filter(|c| !c.is_empty()).collect();
    let mut i = 0;
    while i < calls.len() {
        let c = calls[i];
        match &c[..1] {
            "c" => {
                let d = s(&c[1..]);
                r.compile_templates(base.join(d)).map_err(|e| format!("{e:?}"))?;
                i += 1;
            }
            "s" => {
                let mut st = r.statics().map_err(|e| format!("{e:?}"))?;
                i += 1;
                while i < calls.len() && !calls[i].starts_with('c') && calls[i] != "s" {
                    let c = calls[i];
                    let a: Vec<&str> = c[1..].split(';').collect();
                    let res = match &c[..1] {
                        "f" => st.add_file(s(a[0])).map(|_| ()),
                        "g" => st.add_files(s(a[0])).map(|_| ()),
                        "a" => st.add_file_as(s(a[0]), &s(a[1])).map(|_| ()),
                        "t" => st.add_files_as(s(a[0]), &s(a[1])).map(|_| ()),
                        "d" => st.add_file_data(s(a[0]), &unhex(a[1])).map(|_| ()),
                        // upper case: the same call with its result ignored (a build script that tolerates a missing optional input)
                        "F" => st.add_file(s(a[0])).map(|_| ()).or(Ok(())),
                        "G" => st.add_files(s(a[0])).map(|_| ()).or(Ok(())),
                        "A" => st.add_file_as(s(a[0]), &s(a[1])).map(|_| ()).or(Ok(())),
                        "T" => st.add_files_as(s(a[0]), &s(a[1])).map(|_| ()).or(Ok(())),
                        #[cfg(feature = "sass")]
                        "S" => st.add_sass_file(s(a[0])).map(|_| ()),
                        _ => return Err(format!("bad call {c}")),
                    };
                    res.map_err(|e| format!("{e:?}"))?;
                    i += 1;
                }
            }
            _ => return Err(format!("bad call {c}")),
        }
    }
    Ok(())
}

/// `build-once <base> <out> <program> <k> <keep>`: one build with the crash point armed.
pub fn run_once() {
    let a: Vec<String> = std::env::args().collect();
    let k: i64 = a[5].parse().unwrap();
    let keepb: i64 = a[6].parse().unwrap();
    ructe::verif_hooks::arm_crash(k, keepb);
    let r = run_program(Path::new(&a[2]), Path::new(&a[3]), &a[4]);
    println!("##R writes={}", ructe::verif_hooks::writes_done());
    match r {
        Ok(()) => println!("##R run=ok"),
        Err(e) => println!("##R run={}", hex(format!("E{e}").as_bytes())),
    }
}

pub fn run() {
    let work = workdir();
    let stdin = std::io::stdin();
    let mut n = 0u64;
    for line in stdin.lock().lines() {
        let line = line.unwrap();
        n += 1;
        let base: PathBuf = work.join(format!("i{n}"));
        let out: PathBuf = work.join(format!("o{n}"));
        std::fs::create_dir_all(&base).unwrap();
        std::fs::create_dir_all(&out).unwrap();
        println!("##CASE");
        println!("##R base={}", hex(base.to_str().unwrap().as_bytes()));
        println!("##R outdir={}", hex(out.to_str().unwrap().as_bytes()));
        for op in line.split(' ').filter(|x| !x.is_empty()) {
            let f: Vec<&str> = op.splitn(4, ':').collect();
            match f[0] {
                "W" => {
                    let p = base.join(s(f[1]));
                    if let Some(d) = p.parent() {
                        std::fs::create_dir_all(d).unwrap();
                    }
                    std::fs::write(&p, unhex(f[2])).unwrap();
                }
                "T" => {
                    let p = base.join(s(f[1]));
                    let old = std::fs::metadata(&p).and_then(|m| m.modified()).ok();
                    if let Some(d) = p.parent() {
                        std::fs::create_dir_all(d).unwrap();
                    }
                    std::fs::write(&p, unhex(f[2])).unwrap();
                    if let Some(t) = old {
                        if let Ok(fh) = std::fs::OpenOptions::new().write(true).open(&p) {
                            let _ = fh.set_modified(t);
                        }
                    }
                }
                "Y" => {
                    let p = base.join(s(f[1]));
                    if let Some(d) = p.parent() {
                        std::fs::create_dir_all(d).unwrap();
                    }
                    let _ = std::os::unix::fs::symlink(s(f[2]), &p);
                }
                "M" => std::fs::create_dir_all(base.join(s(f[1]))).unwrap(),
                "X" => {
                    let p = base.join(s(f[1]));
                    if p.is_dir() {
                        let _ = std::fs::remove_dir_all(&p);
                    } else {
                        let _ = std::fs::remove_file(&p);
                    }
                }
                "N" => {
                    let to = base.join(s(f[2]));
                    if let Some(d) = to.parent() {
                        std::fs::create_dir_all(d).unwrap();
                    }
                    let _ = std::fs::rename(base.join(s(f[1])), to);
                }
                "O" => {
                    let p = out.join(s(f[1]));
                    if let Some(d) = p.parent() {
                        std::fs::create_dir_all(d).unwrap();
                    }
                    std::fs::write(&p, unhex(f[2])).unwrap();
                }
                "Z" => {
                    walk(&out, "", &mut |p, _r, is_dir| {
                        if !is_dir {
                            if let Ok(fh) = std::fs::OpenOptions::new().write(true).open(p) {
                                let _ = fh.set_modified(sentinel());
                            }
                        }
                    });
                }
                "L" => {
                    let mut l = Vec::new();
                    listing(&base, "", &mut l);
                    println!("##R ls={}", l.join(";"));
                }
                "R" => {
                    let prog = f[1..].join(":");
                    let r = std::panic::catch_unwind(|| run_program(&base, &out, &prog));
                    match r {
                        Ok(Ok(())) => println!("##R run=ok"),
                        Ok(Err(e)) => println!("##R run={}", hex(format!("E{e}").as_bytes())),
                        Err(_) => println!("##R run=panic"),
                    }
                }
                "C" => {
                    let prog = f[3];
                    use std::io::Write;
                    std::io::stdout().flush().unwrap();
                    let st = std::process::Command::new(std::env::current_exe().unwrap())
                        .arg("build-once")
                        .arg(&base)
                        .arg(&out)
                        .arg(prog)
                        .arg(f[1])
                        .arg(f[2])
                        .status()
                        .unwrap();
                    println!("##R crash={}", if st.success() { "completed".to_string() } else { "aborted".to_string() });
                }
                "P" => {
                    let mut items = Vec::new();
                    walk(&out, "", &mut |p, r, is_dir| {
                        if !is_dir {
                            let c = std::fs::read(p).unwrap_or_default();
                            let touched = std::fs::metadata(p)
                                .and_then(|m| m.modified())
                                .map(|t| t != sentinel())
                                .unwrap_or(true);
                            items.push(format!("{}:{}:{}", hex(r.as_bytes()), hex(&c), if touched { "w" } else { "u" }));
                        } else {
                            items.push(format!("{}:D:d", hex(r.as_bytes())));
                        }
                    });
                    println!("##R snap={}", if items.is_empty() { "-".to_string() } else { items.join(",") });
                }
                _ => println!("##R badop={}", f[0]),
            }
        }
        println!("##END");
        if !keep() {
            let _ = std::fs::remove_dir_all(&base);
            let _ = std::fs::remove_dir_all(&out);
        }
    }
    if !keep() {
        let _ = std::fs::remove_dir_all(&work);
    }
}
