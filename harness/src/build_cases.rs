pub fn run() { unimplemented!() }
