//! S3 helper: `ToHtml`, `Html`, `HtmlBuffer`, `to_buffer` of the *library* copy of utils.rs
//! against scheduled sinks and chunking Display values.
//! case:   <wrapper D|H|B|HB|BB|FB> <pieces hex,hex,..|-> <schedule tokens aN|i|fN|wN,..|->
//!         a trailing c (Dc, Hc, ..): the Display impl hands its text over char by char through Formatter::write_char
//!         RB = a buffer filled by a ToHtml impl that writes the pieces as raw bytes (any bytes), then written out
//!         FB = B on a thread where a to_buffer() of a failing ToHtml value came just before; wN = fails with WouldBlock
//! result: <hex of accepted bytes> <ok|wz|ioN|other:..> [<hex buffer> <eq flags>]
use crate::{hex, unhex};
use ructe::templates::{Html, ToHtml};
use std::fmt;
use std::io::{self, BufRead, Write};

struct Pieces(Vec<String>, bool);
impl fmt::Display for Pieces {
    fn fmt(&self, f: &mut fmt::Formatter) -> fmt::Result {
        use fmt::Write as _;
        for p in &self.0 {
            if self.1 {
                // the way `char`, `{:?}` of a str (its quotes) and padding reach the formatter
                for c in p.chars() {
                    f.write_char(c)?;
                }
            } else {
                f.write_str(p)?;
            }
        }
        Ok(())
    }
}

enum Resp {
    Accept(usize),
    Interrupted,
    Fail(u32),
    WouldBlock(u32),
}
/// a value with its own ToHtml that writes some bytes and then fails
struct Failing(Vec<u8>);
impl ToHtml for Failing {
    fn to_html(&self, out: &mut dyn Write) -> io::Result<()> {
        out.write_all(&self.0)?;
        Err(io::Error::new(io::ErrorKind::Other, "E99"))
    }
}
/// a value with its own ToHtml that writes the given byte pieces as they are
struct RawBytes(Vec<Vec<u8>>);
impl ToHtml for RawBytes {
    fn to_html(&self, out: &mut dyn Write) -> io::Result<()> {
        for p in &self.0 {
            out.write_all(p)?;
        }
        Ok(())
    }
}
struct Sink {
    sched: std::collections::VecDeque<Resp>,
    log: Vec<u8>,
}
impl Write for Sink {
    fn write(&mut self, d: &[u8]) -> io::Result<usize> {
        match self.sched.pop_front() {
            None => {
                self.log.extend_from_slice(d);
                Ok(d.len())
            }
            Some(Resp::Accept(k)) => {
                let n = k.min(d.len());
                self.log.extend_from_slice(&d[..n]);
                Ok(n)
            }
            Some(Resp::Interrupted) => Err(io::Error::new(io::ErrorKind::Interrupted, "int")),
            Some(Resp::Fail(e)) => Err(io::Error::new(io::ErrorKind::Other, format!("E{e}"))),
            Some(Resp::WouldBlock(e)) => Err(io::Error::new(io::ErrorKind::WouldBlock, format!("E{e}"))),
        }
    }
    fn flush(&mut self) -> io::Result<()> {
        Ok(())
    }
}

fn res_str(r: io::Result<()>) -> String {
    match r {
        Ok(()) => "ok".into(),
        Err(e) if e.kind() == io::ErrorKind::WriteZero => "wz".into(),
        Err(e) => {
            let m = e.to_string();
            match m.strip_prefix('E') {
                Some(n) if e.kind() == io::ErrorKind::Other || e.kind() == io::ErrorKind::WouldBlock => format!("io{n}"),
                _ => format!("other:{:?}", e.kind()),
            }
        }
    }
}

pub fn run() {
    let stdin = io::stdin();
    let out = io::stdout();
    let mut out = out.lock();
    for line in stdin.lock().lines() {
        let line = line.unwrap();
        let f: Vec<&str> = line.split(' ').collect();
        let raw: Vec<Vec<u8>> = if f[1] == "-" { vec![] } else { f[1].split(',').map(unhex).collect() };
        // RB: the pieces are bytes a user's own ToHtml writes (not necessarily UTF-8); every other wrapper formats text
        let pieces: Vec<String> = if f[0] == "RB" { vec![] } else { raw.iter().map(|p| String::from_utf8(p.clone()).unwrap()).collect() };
        let mut sink = Sink { sched: Default::default(), log: vec![] };
        if f[2] != "-" {
            for t in f[2].split(',') {
                sink.sched.push_back(match &t[..1] {
                    "a" => Resp::Accept(t[1..].parse().unwrap()),
                    "i" => Resp::Interrupted,
                    "w" => Resp::WouldBlock(t[1..].parse().unwrap()),
                    _ => Resp::Fail(t[1..].parse().unwrap()),
                });
            }
        }
        let by_char = f[0].ends_with('c');
        let v = Pieces(pieces, by_char);
        let r = std::panic::catch_unwind(std::panic::AssertUnwindSafe(|| match f[0].trim_end_matches('c') {
            "D" => (v.to_html(&mut sink), None),
            "H" => (Html(&v).to_html(&mut sink), None),
            "B" => {
                let b = v.to_buffer().unwrap();
                let r = b.to_html(&mut sink);
                (r, Some(b))
            }
            "FB" => {
                let junk = Failing(b"<leftover>&".to_vec()).to_buffer();
                assert!(junk.is_err());
                let b = v.to_buffer().unwrap();
                let r = b.to_html(&mut sink);
                (r, Some(b))
            }
            "RB" => {
                let b = RawBytes(raw.clone()).to_buffer().unwrap();
                let r = b.to_html(&mut sink);
                (r, Some(b))
            }
            "HB" => {
                let b = Html(&v).to_buffer().unwrap();
                let r = b.to_html(&mut sink);
                (r, Some(b))
            }
            _ => {
                let b = v.to_buffer().unwrap().to_buffer().unwrap();
                let r = b.to_html(&mut sink);
                (r, Some(b))
            }
        }));
        match r {
            Err(_) => writeln!(out, "PANIC").unwrap(),
            Ok((r, None)) => writeln!(out, "{} {}", hex(&sink.log), res_str(r)).unwrap(),
            Ok((r, Some(b))) => {
                let bytes: &[u8] = b.as_ref();
                let copy = bytes.to_vec();
                let eq_b = b == &copy[..];
                let mut other = copy.clone();
                other.push(b'x');
                let ne_b = b == &other[..];
                let eq_s = match std::str::from_utf8(&copy) {
                    Ok(s) => b == s,
                    Err(_) => true,
                };
                // near misses around line ends: a &str that differs only by a CR before a LF, by a trailing CR, by an added CR
                let near_s = match std::str::from_utf8(&copy) {
                    Ok(s) => [s.replace("\r\n", "\n"), s.strip_suffix('\r').unwrap_or(s).to_string(), format!("{s}\r"), s.replace('\n', "\r\n")]
                        .iter()
                        .any(|t| t.as_str() != s && b == t.as_str()),
                    Err(_) => false,
                };
                writeln!(
                    out,
                    "{} {} {} {}{}{}{}",
                    hex(&sink.log),
                    res_str(r),
                    hex(&copy),
                    eq_b as u8,
                    ne_b as u8,
                    eq_s as u8,
                    near_s as u8
                )
                .unwrap()
            }
        }
    }
}
