//! S4 (static files): runs add_* histories through the public API on a real directory.
//! child protocol (stdout, grouped by the `capture` wrapper in main.rs):
//!   ##CASE / ##R key=value ... / ##END, with ructe's own println! lines in between.
//! case: ops separated by spaces, each `K:hex:hex..`:
//!   F:<relpath>:<content>        write the file, then add_file(relpath)
//!   A:<relpath>:<url>:<content>  write the file, then add_file_as(relpath, url)
//!   D:<path>:<data>              add_file_data(path, data)
//!   W:<relpath>:<content>        only write the file (for add_files / add_files_as / sass imports)
//!   M:<reldir>                   create the directory
//!   G:<reldir>                   add_files(reldir)
//!   T:<reldir>:<to>              add_files_as(reldir, to)
//!   S:<relpath>                  add_sass_file(relpath)   (feature sass)
use crate::{hex, unhex};
use ructe::Ructe;
use std::io::BufRead;
use std::path::PathBuf;

pub fn keep() -> bool {
    std::env::var_os("RVH_ROOT").is_some()
}
pub fn workdir() -> PathBuf {
    let root = std::env::var_os("RVH_ROOT").map(PathBuf::from).unwrap_or_else(std::env::temp_dir);
    let d = root.join(format!("rvh-{}", std::process::id()));
    let _ = std::fs::remove_dir_all(&d);
    std::fs::create_dir_all(&d).unwrap();
    d
}

fn s(h: &str) -> String {
    String::from_utf8(unhex(h)).unwrap()
}

pub fn run() {
    let work = workdir();
    let stdin = std::io::stdin();
    let mut n = 0u64;
    for line in stdin.lock().lines() {
        let line = line.unwrap();
        n += 1;
        let base = work.join(format!("c{n}"));
        let out = work.join(format!("o{n}"));
        std::fs::create_dir_all(&base).unwrap();
        std::fs::create_dir_all(&out).unwrap();
        std::env::set_var("CARGO_MANIFEST_DIR", &base);
        println!("##CASE");
        println!("##R base={}", hex(base.to_str().unwrap().as_bytes()));
        let r = std::panic::catch_unwind(|| {
            let mut r = Ructe::new(out.clone()).unwrap();
            let mut st = r.statics().unwrap();
            for op in line.split(' ').filter(|x| !x.is_empty()) {
                let f: Vec<&str> = op.split(':').collect();
                let wr = |rel: &str, content: &[u8]| {
                    let p = base.join(rel);
                    if let Some(d) = p.parent() {
                        std::fs::create_dir_all(d).unwrap();
                    }
                    std::fs::write(&p, content).unwrap();
                };
                let res: Result<(), String> = match f[0] {
                    "F" => {
                        wr(&s(f[1]), &unhex(f[2]));
                        st.add_file(s(f[1])).map(|_| ()).map_err(|e| format!("{e:?}"))
                    }
                    "A" => {
                        wr(&s(f[1]), &unhex(f[3]));
                        st.add_file_as(s(f[1]), &s(f[2])).map(|_| ()).map_err(|e| format!("{e:?}"))
                    }
                    "D" => st.add_file_data(s(f[1]), &unhex(f[2])).map(|_| ()).map_err(|e| format!("{e:?}")),
                    "W" => {
                        wr(&s(f[1]), &unhex(f[2]));
                        Ok(())
                    }
                    "M" => {
                        std::fs::create_dir_all(base.join(s(f[1]))).unwrap();
                        Ok(())
                    }
                    "G" => st.add_files(s(f[1])).map(|_| ()).map_err(|e| format!("{e:?}")),
                    "T" => st.add_files_as(s(f[1]), &s(f[2])).map(|_| ()).map_err(|e| format!("{e:?}")),
                    #[cfg(feature = "sass")]
                    "S" => match st.add_sass_file(s(f[1])) {
                        Ok(_) => Ok(()),
                        Err(e) => Err(format!("{e:?}")),
                    },
                    _ => Err("unknown op".into()),
                };
                match res {
                    Ok(()) => println!("##R op=ok"),
                    Err(e) => println!("##R op={}", hex(format!("E{e}").as_bytes())),
                }
            }
            let names: Vec<String> = st
                .get_names()
                .iter()
                .map(|(k, v)| format!("{}={}", hex(k.as_bytes()), hex(v.as_bytes())))
                .collect();
            println!("##R names={}", if names.is_empty() { "-".to_string() } else { names.join(",") });
        });
        if r.is_err() {
            println!("##R panic=1");
        }
        match std::fs::read(out.join("templates/statics.rs")) {
            Ok(g) => println!("##R statics={}", hex(&g)),
            Err(_) => println!("##R statics=MISSING"),
        }
        match std::fs::read(out.join("templates.rs")) {
            Ok(g) => println!("##R templates={}", hex(&g)),
            Err(_) => println!("##R templates=MISSING"),
        }
        println!("##R outdir={}", hex(out.to_str().unwrap().as_bytes()));
        println!("##END");
        if !keep() {
            let _ = std::fs::remove_dir_all(&base);
            let _ = std::fs::remove_dir_all(&out);
        }
    }
    if !keep() {
        let _ = std::fs::remove_dir_all(&work);
    }
}
